----------------------------- MODULE TraceActor -----------------------------
(* Validates call sequences recorded from the REAL actors (every flavour, direct API and flow.Functor)   *)
(* against Actor.tla: every logged call must be an enabled Actor action with the logged arguments and     *)
(* the projection of the real objects after the call (builder kwargs, params in force, model, result of  *)
(* apply, is_stateful) must equal the state the action leads to.  One JVM validates a whole batch.        *)
EXTENDS Actor, IOUtils, TLCExt
Batch == JsonDeserialize(IOEnv.TRACE_FILE)
VARIABLES tid, l
tvars == <<vars, tid, l>>
Tr == Batch.traces[tid]

InitT == /\ tid \in 1..Len(Batch.traces) /\ l = 1
         /\ ht = Batch.traces[tid].ht /\ bld = Batch.traces[tid].bld
         /\ inst = [i \in Inst |-> Unbuilt] /\ snap = [i \in Inst |-> NoSnap]
         /\ sync = [i \in Inst |-> 0] /\ fed = [i \in Inst |-> FALSE] /\ bp = [i \in Inst |-> Defaults]
         /\ car = [i \in Inst |-> 0] /\ bk = [i \in Inst |-> NoP]
         /\ hist = <<Ev("trace", 0, 0, 0, bld)>> /\ out = NoOut

Call(e) == CASE e.op = "update" -> Update(e.p)
             [] e.op = "reset" -> Reset(e.p)
             \* e.j = the functor object the recorder executed this instance with from here on (0 = direct API / a new one);
             \* BuildOn is enabled only for a carrier holding exactly this builder
             [] e.op = "build" -> BuildOn(e.i, e.p, IF e.j = 0 THEN Len(hist) + 1 ELSE e.j)
             [] e.op = "train" -> Train(e.i, e.d)
             [] e.op = "getstate" -> GetState(e.i)
             [] e.op = "setstate" -> SetState(e.i, e.j)
             [] e.op = "setempty" -> SetEmpty(e.i)
             [] e.op = "setparams" -> SetParams(e.i, e.p)
             [] e.op = "pickle" -> Pickle(e.i)
             [] e.op = "pickleb" -> PickleB
             [] e.op = "apply" -> Apply(e.i, e.d)
             [] OTHER -> FALSE
\* the real objects after the call, as projected by the recorder; a flavour whose state object is the Tally of the model
\* (Tr.tally) shows whether it is trained and that number instead of the events
ShowsModel(m, o) == IF Tr.tally THEN (m # <<>>) = o.trained /\ Tally(m) = o.tally ELSE m = o.model
Seen(e) == /\ e.res = "ok"
           /\ bld' = e.bld
           /\ \A i \in Inst : /\ inst'[i].built = e.inst[i].built
                              /\ inst'[i].params = e.inst[i].params
                              /\ ShowsModel(inst'[i].model, e.inst[i])
                              /\ inst'[i].built => e.inst[i].stateful = (IF ht' THEN 1 ELSE 0)
           /\ e.op = "apply" => (out'.p = e.out.p /\ out'.x = e.out.x /\ IF Tr.tally THEN Tally(out'.m) = e.out.tally ELSE out'.m = e.out.m)
           /\ e.op = "getstate" => (e.empty => snap'[e.i].model = <<>>) /\ (~ht' => e.empty)
Step == /\ l <= Len(Tr.ev)
        /\ Call(Tr.ev[l]) /\ Seen(Tr.ev[l])
        /\ l' = l + 1 /\ UNCHANGED tid
SpecT == InitT /\ [][Step]_tvars
Track == TLCSet(tid, IF TLCGet(tid) < l THEN l ELSE TLCGet(tid))
ASSUME \A i \in 1..Len(Batch.traces) : TLCSet(i, 0)
Post == \A i \in 1..Len(Batch.traces) : PrintT(<<"VERDICT", i, TLCGet(i) - 1, Len(Batch.traces[i].ev)>>)
=============================================================================
