-------------------------------- MODULE Bank --------------------------------
(***************************************************************************)
(* C20 (provider registration and lookup), requirement level.              *)
(*                                                                         *)
(* A universe u is a provider hierarchy under one abstract root interface  *)
(* (class 0): classes 1..N with a parent (0 or an earlier class), an       *)
(* abstract flag, an optional alias (0 = none) and a module; modules have  *)
(* a name: 0 = outside the root's search path, k > 0 = the module is       *)
(* called like alias k inside the search package of the root (so it is     *)
(* auto-discovered by a lookup of alias k through the root).               *)
(*                                                                         *)
(* A class is registered when its class statement executes: directly       *)
(* (Register, UseModules = FALSE: every order compatible with parent       *)
(* before child) or because its module is imported (Import, every order    *)
(* of imports; a module imports the modules of its classes' parents        *)
(* first) or because a lookup discovers its module (Lookup).               *)
(*                                                                         *)
(* Requirement:                                                            *)
(*   - a registration is "illegal" (alias on an abstract class) or a       *)
(*     "collision" (its alias is already taken by an accepted class of the *)
(*     same root) and then has NO effect, else it is accepted;             *)
(*   - Look(via, ref): the single accepted, concrete class below (or equal *)
(*     to) the interface `via` whose alias / qualified name is `ref`;      *)
(*     nothing else is ever returned; none -> missing (0);                 *)
(*   - for a collision-free set of classes the answer to every lookup is   *)
(*     a function of the SET registered so far, not of the order;          *)
(*   - a reference nobody provides is missing WHATEVER IT LOOKS LIKE: the  *)
(*     module path it names (a qualified name), or that the search path of *)
(*     the interface makes of it (an alias, possibly dotted), may be       *)
(*     absent from the installed module tree at any of its segments - the  *)
(*     leaf module, a parent package, the top-level package - or be        *)
(*     installed and simply not define that provider; and a search path    *)
(*     configured on the interface may itself not be installed (GhostsAll).*)
(*     None of this is visible in the answer (URefs, UnknownMissing).      *)
(*   - "abstract" covers every way a class can be abstract (AbsWays).      *)
(***************************************************************************)
EXTENDS Integers, Sequences, FiniteSets, TLC, Json
CONSTANTS N,            \* classes per universe
          A,            \* aliases 1..A
          M,            \* modules 1..M (1 when UseModules = FALSE)
          UseModules,   \* FALSE: direct registration incl. collisions; TRUE: collision-free universes, imports
          MaxGets,      \* lazy lookups per behaviour (UseModules)
          DoExport,     \* record / print behaviours
          StepTables    \* exported behaviours carry the lookup table after every registration (else only the final one)
VARIABLES u,        \* the universe (constant along a behaviour)
          att,      \* classes whose registration was attempted, in order
          acc,      \* accepted classes
          imp,      \* modules certainly imported (explicitly, or because a lookup returned one of their classes)
          gets,     \* lazy lookups done
          hist      \* events with the outcome the requirement prescribes
vars == <<u, att, acc, imp, gets, hist>>

Range(q) == {q[i] : i \in 1..Len(q)}
Max(S) == CHOOSE x \in S : \A y \in S : y <= x

(******************************* universes *********************************)
Desc(i) == [par : 0..(i - 1), abs : BOOLEAN, al : 0..A, mod : 1..M]
RECURSIVE ClsSeqs(_)
ClsSeqs(n) == IF n = 0 THEN {<<>>} ELSE {Append(s, d) : s \in ClsSeqs(n - 1), d \in Desc(n)}
\* aliases are interchangeable: first use in id order is numbered 1, the next new one 2, ...
AliasCanon(cs) == \A c \in 1..Len(cs) : cs[c].al > 1 => \E d \in 1..(c - 1) : cs[d].al = cs[c].al - 1
\* a module never imports a later one (parents live in the same or an earlier module); module numbers are used
\* without gaps and in order of first use
ModOK(cs) == /\ \A c \in 1..Len(cs) : cs[c].par # 0 => cs[cs[c].par].mod <= cs[c].mod
             /\ \A c \in 1..Len(cs) : cs[c].mod > 1 => \E d \in 1..(c - 1) : cs[d].mod = cs[c].mod - 1
LegalU(cs) == \A c \in 1..Len(cs) : ~(cs[c].abs /\ cs[c].al # 0)
CollisionFreeU(cs) == \A c, d \in 1..Len(cs) : (cs[c].al # 0 /\ cs[c].al = cs[d].al) => c = d
NameSeqs == {nm \in [1..M -> 0..A] : \A i, j \in 1..M : (nm[i] # 0 /\ nm[i] = nm[j]) => i = j}
\* ancestors-or-self of every class (the root interface 0 included), computed once per universe
RECURSIVE AncOf(_, _)
AncOf(cs, c) == IF c = 0 THEN {0} ELSE {c} \cup AncOf(cs, cs[c].par)
\* modules executed when m is imported: m and, first, the modules of the parents of its classes (transitively)
RECURSIVE CloOf(_, _)
CloOf(cs, m) == {m} \cup UNION {CloOf(cs, cs[cs[c].par].mod) :
                                  c \in {d \in 1..Len(cs) : cs[d].mod = m /\ cs[d].par # 0 /\ cs[cs[d].par].mod # m}}
(**************************** module namespace *****************************)
\* A dotted module path relative to what is installed: shape <<s, e>> = s segments of which exactly the first e
\* are installed.  e < s: segment e + 1 is absent (the leaf when e = s - 1, else a parent package; e = 0: the
\* top-level package); e = s: the module is installed (and provides nothing that is looked up through it).
MaxSegs == 3
Shapes == {sh \in (1..MaxSegs) \X (0..MaxSegs) : sh[2] <= sh[1]}
Absent == {sh \in Shapes : sh[2] < sh[1]}
\* The root interface may be configured, next to its search package, with a search path that is not installed
\* (NoGhost: it is not).  The requirement does not mention that configuration anywhere: every behaviour and every
\* lookup table below is required under each element of GhostsAll alike (the replay draws one per behaviour, a
\* recorded trace names its own; the as-is model BankImpl!IGetUnknown is checked for all of them).
NoGhost == <<0, 0>>
GhostsAll == {NoGhost} \cup Absent

\* "Abstract" (the flag abs) is all the requirement knows; HOW a class comes to be abstract is not mentioned anywhere,
\* so every behaviour and every lookup table below is required under each way alike (the replay draws one per
\* abstract class, a recorded trace names its own: ways[c], 0 for a concrete class):
\*   1 = the class declares an abstract method of its own;
\*   2 = it declares nothing and leaves an abstract method it inherits unimplemented (possible only where the
\*       parent still has one: the parent is the root interface or is itself abstract in way 1 or 2);
\*   3 = all its methods are concrete but it carries an abstract inner class (the library's own extended notion,
\*       forml.provider.isabstract).
\* (Concrete classes implement / override everything abstract they inherit - methods and inner classes.)
AbsWays == 1..3
OpenMethods(cs, w, c) == IF c = 0 THEN TRUE ELSE cs[c].abs /\ w[c] \in {1, 2}
WaysOK(cs, w) == /\ Len(w) = Len(cs)
                 /\ \A c \in 1..Len(cs) : /\ w[c] \in (IF cs[c].abs THEN AbsWays ELSE {0})
                                          /\ w[c] = 2 => OpenMethods(cs, w, cs[c].par)

Uni(cs, nm) == [cls |-> cs, name |-> nm, anc |-> [c \in 1..Len(cs) |-> AncOf(cs, c)],
                clo |-> [m \in 1..Len(nm) |-> CloOf(cs, m)]]
Universes ==
    IF UseModules
    THEN {Uni(cs, nm) : cs \in {x \in ClsSeqs(N) : ModOK(x) /\ LegalU(x) /\ CollisionFreeU(x)
                                                               /\ \E c \in 1..N : x[c].mod = M},
                                      nm \in NameSeqs}
    ELSE {Uni(cs, [i \in 1..M |-> 0]) : cs \in {x \in ClsSeqs(N) : AliasCanon(x) /\ ModOK(x)}}

(***************************** static vocabulary ***************************)
Cls == 1..Len(u.cls)
Par(c) == u.cls[c].par
AncSelf(c) == u.anc[c]
Concrete(c) == ~u.cls[c].abs
Legal(c) == ~(u.cls[c].abs /\ u.cls[c].al # 0)
\* reference kinds: 1 = alias n, 2 = qualified name of class n (n up to N + 1: one unknown of each kind)
Refs == {<<1, n>> : n \in 1..(A + 1)} \cup {<<2, n>> : n \in 1..(Len(u.cls) + 1)}
\* references nobody provides, by the shape of the module path they lead to:
\*   kind 3 = qualified name: module path of shape <<s, e>>, class name = the name of class k of the universe
\*            (k = 0: a name no class has); number 100 s + 10 e + k.  The module is never the one of class k.
\*   kind 4 = alias of s <= 2 segments (dotted when s = 2) no class carries; <search package>.<alias> has the
\*            first e alias segments installed; number 10 s + e
URefsOf(ks) == {<<3, 100 * sh[1] + 10 * sh[2] + k>> : sh \in Shapes, k \in ks}
                   \cup {<<4, 10 * sh[1] + sh[2]>> : sh \in {x \in Shapes : x[1] <= 2}}
\* (model checking / export: a fresh class name and, standing for the names in use, the one of class 1;
\*  recorded traces take any k in 0..number of classes)
URefs == URefsOf({0, 1})
Matches(c, r) == IF r[1] = 1 THEN u.cls[c].al = r[2] ELSE IF r[1] = 2 THEN c = r[2] ELSE FALSE
Found(S, via, r) == {c \in S : Matches(c, r) /\ Concrete(c) /\ via \in AncSelf(c)}
One(S) == IF S = {} THEN 0 ELSE CHOOSE c \in S : TRUE
Look(via, r) == One(Found(acc, via, r))

ModsOf(m) == {c \in Cls : u.cls[c].mod = m}
Mods == 1..Len(u.name)
Closure(m) == u.clo[m]
ClassesOf(ms) == {c \in Cls : u.cls[c].mod \in ms}
\* the module a lazy lookup of r through `via` is able to discover (0 = none): the module named by a qualified
\* name, or - through the root only, which owns the search path - the module called like the alias
Discovers(via, r) ==
    IF r[1] = 2 THEN (IF r[2] \in Cls THEN u.cls[r[2]].mod ELSE 0)
    ELSE IF r[1] # 1 THEN 0      \* (kinds 3, 4: whatever is installed along that path holds no class of the universe)
    ELSE IF via = 0 /\ \E m \in Mods : u.name[m] = r[2] THEN CHOOSE m \in Mods : u.name[m] = r[2] ELSE 0
\* requirement for a lookup in a world where modules are imported lazily:
\*   must: the answer when the matching class is registered or discoverable by this very lookup
\*   may : the matching class of the whole universe - the only class that may ever be returned
Whole(via, r) == One(Found({c \in Cls : Legal(c)}, via, r))
Must(via, r) ==
    LET d == Discovers(via, r)
        seen == acc \cup (IF d = 0 THEN {} ELSE ClassesOf(Closure(d)))
    IN One(Found(seen, via, r))
Vias == {0} \cup acc
\* the lookup table (every interface reachable x every reference); exported sparsely: rows that are not listed
\* read "missing, and nothing may be returned"
Table == {row \in {[via |-> v, t |-> r[1], n |-> r[2], must |-> IF UseModules THEN Must(v, r) ELSE Look(v, r),
                    may |-> IF UseModules THEN Whole(v, r) ELSE Look(v, r)] : v \in Vias, r \in Refs} :
              row.must # 0 \/ row.may # 0}

Ev(op, a, t, n, out, must, may) ==
    [op |-> op, a |-> a, t |-> t, n |-> n, out |-> out, must |-> must, may |-> may, table |-> {}]

(********************************* actions *********************************)
Init == /\ u \in Universes
        /\ att = <<>> /\ acc = {} /\ imp = {} /\ gets = 0 /\ hist = <<>>

Outcome(c) == IF ~Legal(c) THEN "illegal"
              ELSE IF u.cls[c].al # 0 /\ \E d \in acc : u.cls[d].al = u.cls[c].al THEN "collision"
              ELSE "ok"
\* the class statement of c executes (its parent exists)
CanRegister(c) == c \in Cls /\ c \notin Range(att) /\ (Par(c) = 0 \/ Par(c) \in acc)
Register(c) == /\ ~UseModules
               /\ CanRegister(c)
               /\ UNCHANGED <<u, imp, gets>>
               /\ att' = Append(att, c)
               /\ acc' = IF Outcome(c) = "ok" THEN acc \cup {c} ELSE acc
               /\ hist' = IF DoExport
                          THEN Append(hist, [Ev("reg", c, 0, 0, Outcome(c), 0, 0) EXCEPT !.table = IF StepTables THEN Table' ELSE {}])
                          ELSE hist
Import(m) == /\ UseModules /\ m \in Mods /\ m \notin imp
             /\ imp' = imp \cup Closure(m)
             /\ acc' = acc \cup ClassesOf(Closure(m))
             /\ hist' = IF DoExport THEN Append(hist, Ev("imp", m, 0, 0, "ok", 0, 0)) ELSE hist
             /\ UNCHANGED <<u, att, gets>>
\* a lookup that may have to discover the module; what it returns is certainly registered afterwards
\* (as an event only references that exist somewhere in the universe: the unknown ones are in every Table)
Lookup(via, r) == /\ UseModules /\ gets < MaxGets /\ via \in Vias /\ r \in Refs /\ imp # Mods
                  /\ r[2] <= (IF r[1] = 1 THEN A ELSE Len(u.cls))
                  /\ LET res == Must(via, r)
                         new == IF res = 0 THEN {} ELSE Closure(u.cls[res].mod)
                     IN /\ imp' = imp \cup new
                        /\ acc' = acc \cup ClassesOf(new)
                        /\ hist' = IF DoExport THEN Append(hist, Ev("get", via, r[1], r[2], "get", res, Whole(via, r)))
                                   ELSE hist
                  /\ gets' = gets + 1
                  /\ UNCHANGED <<u, att>>
\* (constant bounds, so that TLC reports coverage per action)
Next == \/ \E c \in 1..N : Register(c)
        \/ \E m \in 1..M : Import(m)
        \/ \E v \in 0..N, t \in 1..2, n \in 1..(N + A + 1) : Lookup(v, <<t, n>>)
Spec == Init /\ [][Next]_vars

(******************************** invariants *******************************)
\* one class per reference and interface
SingleClass == \A v \in Vias, r \in Refs : Cardinality(Found(acc, v, r)) <= 1
AbstractNeverReturned == \A v \in Vias, r \in Refs : Look(v, r) # 0 => Concrete(Look(v, r))
\* only what was accepted is ever returned; references nobody registered are missing
UnknownMissing == /\ \A v \in Vias, r \in Refs :
                      /\ Look(v, r) # 0 => (Look(v, r) \in acc /\ Matches(Look(v, r), r) /\ v \in AncSelf(Look(v, r)))
                      /\ (r[2] = (IF r[1] = 1 THEN A + 1 ELSE Len(u.cls) + 1)) => Look(v, r) = 0
                  \* ... of whatever shape, eagerly or lazily, whatever search path is configured
                  \* (no class of the whole universe answers to it; Look, Must and Whole select from subsets of Cls)
                  /\ \A r \in URefs : Discovers(0, r) = 0 /\ \A v \in Vias : Found(Cls, v, r) = {} /\ Look(v, r) = 0
\* rejected registrations: exactly the illegal ones and those whose alias was taken before; first one wins
Tried == IF UseModules THEN acc ELSE Range(att)
CollisionsRejected ==
    /\ \A c \in Tried \ acc : ~Legal(c) \/ \E d \in acc : d # c /\ u.cls[d].al = u.cls[c].al
    /\ \A c, d \in acc : (u.cls[c].al # 0 /\ u.cls[c].al = u.cls[d].al) => c = d
    /\ ~UseModules => \A j \in 1..Len(att) : (Legal(att[j]) /\ u.cls[att[j]].al # 0) =>
           (att[j] \in acc <=> \A i \in 1..(j - 1) : ~(Legal(att[i]) /\ u.cls[att[i]].al = u.cls[att[j]].al))
\* collision-free: the accepted set, hence every answer, depends on the set of classes only
OrderIndependent ==
    (\A c, d \in Tried : (Legal(c) /\ Legal(d) /\ u.cls[c].al # 0 /\ u.cls[c].al = u.cls[d].al) => c = d)
        => /\ acc = {c \in Tried : Legal(c)}
           /\ \A v \in Vias, r \in Refs : Look(v, r) = One(Found({c \in Tried : Legal(c)}, v, r))
\* lazily discovered or not, a lookup never contradicts the whole universe, and what is registered is found
LazySound == UseModules => \A v \in Vias, r \in Refs :
                 /\ Must(v, r) # 0 => Must(v, r) = Whole(v, r)
                 /\ Look(v, r) # 0 => Must(v, r) = Look(v, r)
                 /\ acc = ClassesOf(imp)

Done == IF UseModules THEN (imp = Mods \/ (DoExport /\ hist # <<>> /\ hist[Len(hist)].op = "get"))
        ELSE ~(\E c \in Cls : CanRegister(c))
Export == (DoExport /\ Done) => PrintT(ToJson([cls |-> u.cls, name |-> u.name, acc |-> acc, hist |-> hist, table |-> Table]))
\* printed once (constant sets): the references every exported table is silent about for a reason of their own -
\* "missing" is required for each of them through every interface - and the search path configurations of the root
\* interface, and the ways of being abstract, under each of which every exported behaviour is required
ASSUME DoExport => PrintT(ToJson([urefs |-> URefs, ghosts |-> GhostsAll, ways |-> AbsWays]))
=============================================================================
