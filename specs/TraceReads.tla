----------------------------- MODULE TraceReads -----------------------------
(***************************************************************************)
(* C06, code -> spec (parser level).  Validates observations recorded from *)
(* the real alchemy.Parser + SQL engines against the reference semantics   *)
(* of RelAlg.tla.  Batch (JSON):                                           *)
(*   lits : literal dictionary (repr text |-> integer)                     *)
(*   dbs  : sequence of databases (table name |-> rows)                    *)
(*   obs  : sequence of [ast, db (index into dbs), outs]                   *)
(*          outs = the DISTINCT outcomes seen over the engines, each       *)
(*          [res, rows]: res = "ok" with the fetched rows, or              *)
(*          "parse:<Type>" / "exec:<Type>" when parsing / executing raised *)
(* Verdict per observation: <<wf, codes>> with, per outcome,               *)
(*   1  rows is an allowed result of the statement over the database       *)
(*   2  not allowed, but what the AS-IS rendering of cross joins yields    *)
(*      (known deviation, classified by the driver from the input)         *)
(*   0  rejected (wrong rows, or an exception on a well-formed statement)  *)
(* wf = 1 iff the statement is WellFormed (the generator's promise; 0 is a *)
(* machinery error in the driver, never a verdict about the code).         *)
(***************************************************************************)
EXTENDS RelAlg, Json, IOUtils, TLCExt
Batch == JsonDeserialize(IOEnv.TRACE_FILE)
BatchLits == Batch.lits
N == Len(Batch.obs)
VARIABLES tid
vars == <<tid>>
Obs == Batch.obs[tid]
Db == Batch.dbs[Obs.db]
AsIsDb == [k \in DOMAIN Db \cup {CrossAsFull} |-> IF k \in DOMAIN Db THEN Db[k] ELSE <<>>]

Code(out) == IF out.res # "ok" THEN 0
             ELSE IF Accepts(Obs.ast, Db, out.rows) THEN 1
             ELSE IF Accepts(Obs.ast, AsIsDb, out.rows) THEN 2
             ELSE 0
Init == tid \in 1..N
Next == UNCHANGED vars
Spec == Init /\ [][Next]_vars
Judge == TLCSet(tid, <<B(WellFormed(Obs.ast)), [i \in DOMAIN Obs.outs |-> Code(Obs.outs[i])]>>)
ASSUME \A i \in 1..N : TLCSet(i, <<>>)
Post == \A i \in 1..N : PrintT(<<"VERDICT", i>> \o TLCGet(i))
=============================================================================
