----------------------------- MODULE TraceReads -----------------------------
(***************************************************************************)
(* C06, code -> spec (parser level).  Validates observations recorded from *)
(* the real alchemy.Parser + SQL engines against the reference semantics   *)
(* of RelAlg.tla.  Batch (JSON):                                           *)
(*   lits : literal dictionary (repr text |-> integer)                     *)
(*   dbs  : sequence of databases (table name |-> rows)                    *)
(*   obs  : sequence of [ast, runs]; runs = sequence of [db (index into    *)
(*          dbs), outs]; outs = the DISTINCT outcomes seen over the        *)
(*          engines on that database, each [res, rows]: res = "ok" with    *)
(*          the fetched rows, or "parse:<Type>" / "exec:<Type>" when       *)
(*          parsing / executing raised                                     *)
(* Verdict per observation: <<wf, codes, crash>>, codes[run][outcome] =    *)
(*   1  rows is an allowed result of the statement over the database       *)
(*   0  rejected (wrong rows, or an exception on a well-formed statement)  *)
(* wf = 1 iff the statement is WellFormed (the generator's promise; 0 is a *)
(* machinery error in the driver, never a verdict about the code); crash = *)
(* the exception class the AS-IS model FactorsImpl predicts for parsing    *)
(* this statement ("" = none) - used by the driver only to decide whether  *)
(* a failure belongs to a listed finding.  A batch with "$asis" among its  *)
(* lits is judged by the as-is rendering (second pass over rejected        *)
(* observations, again only to attribute them to listed findings).         *)
(***************************************************************************)
EXTENDS RelAlg, FactorsImpl, Json, IOUtils, TLCExt
Batch == JsonDeserialize(IOEnv.TRACE_FILE)
BatchLits == Batch.lits
BatchFixed == {Batch.fixed[i] : i \in DOMAIN Batch.fixed}
N == Len(Batch.obs)
VARIABLES tid
vars == <<tid>>
Obs == Batch.obs[tid]
Code(run, out) == IF out.res = "ok" /\ Accepts(Obs.ast, Batch.dbs[run.db], out.rows) THEN 1 ELSE 0
Init == tid \in 1..N
Next == UNCHANGED vars
Spec == Init /\ [][Next]_vars
Judge == TLCSet(tid, <<B(WellFormed(Obs.ast)), [r \in DOMAIN Obs.runs |-> [i \in DOMAIN Obs.runs[r].outs |-> Code(Obs.runs[r], Obs.runs[r].outs[i])]], ImplHints(Obs.ast).crash>>)
ASSUME \A i \in 1..N : TLCSet(i, <<>>)
Post == \A i \in 1..N : PrintT(<<"VERDICT", i>> \o TLCGet(i))
=============================================================================
