---------------------------- MODULE EntrySelect ----------------------------
(***************************************************************************)
(* C15 (payload provenance).  The payload of a served entry is a           *)
(* layout.Tabular like any other: it need not be freshly built from the     *)
(* request rows, it may itself be a ROW SELECTION (take_rows: any list -    *)
(* reordered, repeated, shortened, empty) of a table received earlier,      *)
(* and - being a matrix - it is fully described by its cells.  The two      *)
(* sentences of C15 compose:                                                *)
(*                                                                          *)
(*   serving take_rows(base, ix) under the entry schema delivers what       *)
(*   Entry!Aligned demands for the matrix <<base[ix[1]], base[ix[2]], ..>>, *)
(*   which is the same selection of what serving `base` delivers: one       *)
(*   delivered row per payload row, in the payload's order, nothing padded, *)
(*   no value attached to another row (SelectionCommutes).                  *)
(*                                                                          *)
(* How an implementation keeps track of rows internally (row labels of a    *)
(* pandas frame, views of an array) is not part of a matrix: the driver     *)
(* replays every exported behaviour on both tabular implementations, with   *)
(* the selection made by the real take_rows, and on frames carrying row     *)
(* labels of their own.                                                     *)
(*                                                                          *)
(* Behaviours: every arrangement of Entry.tla (query x entry schema x data) *)
(* served as is and after every row selection of length <= MaxSel.          *)
(***************************************************************************)
EXTENDS MatchEntryImpl

CONSTANT MaxSel      \* longest index list of the row selection

VARIABLE prov        \* provenance of the payload d: [picked, base, ix]
svars == <<q, e, d, phase, out, prov>>

Direct == [picked |-> FALSE, base |-> <<>>, ix |-> <<>>]
IndexLists(n, maxlen) == UNION {[1..l -> 1..n] : l \in 0..maxlen}
RowsOf(D, ix) == [k \in DOMAIN ix |-> D[ix[k]]]

SelInit == Init /\ prov = Direct

\* query and entry are arranged as in Entry.tla
Arrange == Build /\ UNCHANGED prov
\* the payload handed over is the selection ix of the rows filled in
Select(ix) == /\ phase = "filled" /\ ~prov.picked
              /\ d' = RowsOf(d, ix)
              /\ prov' = [picked |-> TRUE, base |-> d, ix |-> ix]
              /\ UNCHANGED <<q, e, phase, out>>
AnySelect == \E ix \in IndexLists(NRows, MaxSel) : Select(ix)
ServeSel == ServeImpl /\ UNCHANGED prov

SelNext == Arrange \/ AnySelect \/ ServeSel
SelSpec == SelInit /\ [][SelNext]_svars

(*************************** clauses (invariants) ***************************)
\* the payload is the matrix of the selected rows, whatever it was selected from
PayloadIsSelection == prov.picked => d = RowsOf(prov.base, prov.ix)
\* rows are served independently of each other: serving a selection = selecting from what is served for the whole
SelectionCommutes == (Served /\ prov.picked /\ WellFormed(e)) =>
    \A whole \in Allowed(q, e, prov.base) :
        /\ whole.res = "ok" => out = Result("ok", RowsOf(whole.rows, prov.ix))
        /\ out.res = "refused" => whole.res = "refused"
\* ... in particular one delivered row per payload row
RowPerRow == (Served /\ out.res = "ok") => Len(out.rows) = Len(prov.ix) \/ ~prov.picked

SelVector == [q |-> Vector.q, e |-> Vector.e, d |-> Vector.d, allowed |-> Vector.allowed, asis |-> Vector.asis,
              inclass |-> Vector.inclass, picked |-> prov.picked, base |-> TupRows(prov.base), ix |-> prov.ix]
ExportSel == (ExportOn /\ Served) => PrintT(ToJson(SelVector))
=============================================================================
