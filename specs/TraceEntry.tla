----------------------------- MODULE TraceEntry -----------------------------
(***************************************************************************)
(* C15, code -> spec.  Observations recorded from the real feed reader      *)
(* (Reader.__call__ directly or through RowDriver / TableDriver) are        *)
(* validated against the requirement of Entry.tla: the recorded outcome is  *)
(* accepted iff Entry!ServeWith(outcome) is a step of the requirement, i.e. *)
(* iff the outcome is one of Allowed(q, e, d).  Per observation the verdict *)
(* also carries                                                              *)
(*   - whether the input lies in the input class of the known finding       *)
(*     (MiscastClass: the as-is model of _cast departs from the requirement)*)
(*   - whether the outcome is the one the as-is / the aligned model predict *)
(*     (drift measurement), and whether the generator produced an input the *)
(*     requirement is silent on (must never happen).                        *)
(***************************************************************************)
EXTENDS MatchEntryImpl, IOUtils, TLCExt
VARIABLE tid
tvars == <<q, e, d, phase, out, tid>>
Batch == JsonDeserialize(IOEnv.TRACE_FILE)
N == Len(Batch.obs)
Obs == Batch.obs[tid]

TraceInit == /\ tid \in 1..N
             /\ q = Batch.obs[tid].q /\ e = Batch.obs[tid].e /\ d = Batch.obs[tid].d
             /\ phase = "filled" /\ out = NoOut
\* the single event of an observation: the reader answered Obs.out
Answered == /\ Aligned(q, e, d, Obs.out)
            /\ ServeWith(Obs.out)
            /\ UNCHANGED tid
TraceSpec == TraceInit /\ [][Answered]_tvars

B(x) == IF x THEN 1 ELSE 0
Facts == <<B(Served),
           B(MiscastClass(q, e, d)),
           B(Obs.out = Call(q, e, d, "asis")),
           B(Obs.out = Call(q, e, d, "aligned")),
           B(SilentInput(q, e, d))>>
Track == TLCSet(tid, IF TLCGet(tid)[1] = 1 THEN TLCGet(tid) ELSE Facts)
ASSUME \A i \in 1..N : TLCSet(i, <<0, 0, 0, 0, 0>>)
Post == \A i \in 1..N : PrintT(<<"VERDICT", i>> \o TLCGet(i))
=============================================================================
