SPECIFICATION Spec
INVARIANT Judge
POSTCONDITION Post
CHECK_DEADLOCK FALSE
