------------------------- MODULE FlowGraphCastsDump -------------------------
(* Prints the casts so that the Python driver builds exactly the nodes the model talks about. *)
EXTENDS FlowGraphCasts
ASSUME PrintT(ToJson([name |-> "CastA", cast |-> CastA])) /\ PrintT(ToJson([name |-> "CastB", cast |-> CastB]))
    /\ PrintT(ToJson([name |-> "CastC", cast |-> CastC])) /\ PrintT(ToJson([name |-> "CastD", cast |-> CastD]))
    /\ PrintT(ToJson([name |-> "CastE", cast |-> CastE])) /\ PrintT(ToJson([name |-> "CastG", cast |-> CastG]))
=============================================================================
