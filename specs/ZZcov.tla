---- MODULE ZZcov ----
EXTENDS RelAlg
L == Feat("lit", NilS, "", "int", "1", "", <<>>)
T == Src("table", "B", "", <<<<"i", "int">>>>, NilS, NilS, NilF, <<>>, NilF, <<>>, NilF, <<>>, <<>>)
Q == QueryOf(T, <<Col(T, "i")>>, NilF, <<>>, NilF, <<>>, <<>>)
D == [B |-> << <<1>> >>]
ML == [k \in {"1"} |-> 1]
VARIABLE x
Init == x = 0
Next == x < 2 /\ x' = x + 1
Spec == Init /\ [][Next]_x
Inv == Accepts(Q, D, <<<<1>>>>)
====
