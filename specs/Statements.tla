----------------------------- MODULE Statements -----------------------------
(***************************************************************************)
(* C07, spec -> code.  The DSL builder API as a state machine.             *)
(*                                                                         *)
(* State: the statement under construction.  Actions: the builder calls    *)
(*   select where having groupby orderby limit                             *)
(*   inner/left/right/full/cross_join   union/intersection/difference      *)
(*   reference                                                             *)
(* over a finite alphabet of arguments (a pool of features: columns of two *)
(* tables and of a reference, literals of each kind, aggregates, an alias, *)
(* arithmetic / boolean expressions, foreign columns, ill-kinded           *)
(* expressions, literals of different kinds whose python values are equal  *)
(* - 1 / 1.0 / True: a literal has the kind of its own python type).  The  *)
(* outcome of a call is a function of the statement and the call alone     *)
(* (Outcome reads nothing else): the replay executes all transitions of a  *)
(* chunk in one interpreter, spelling literals as plain python constants,  *)
(* so an outcome that depends on the calls made before shows up as a       *)
(* difference.  Requirement: a call on statement s with candidate result *)
(* n answers ok and moves to n  iff  WellFormed(n)  (module DslAst: the    *)
(* documented rules); otherwise it raises the grammar error and leaves s   *)
(* unchanged.  SchemaOf(s) lists the output names and kinds of s in order. *)
(*                                                                         *)
(* The state is kept compact: a node [t, i, k, l, x, sel, wh, grp, hv,     *)
(* ord, lim] whose integers index the alphabet; Expand(n) is the statement *)
(* (AST of DslAst) it stands for.  Documented update rules of the builder: *)
(* select/groupby/orderby/limit REPLACE their clause, where/having COMBINE *)
(* with the earlier condition (new AND old), a join/set/reference wraps    *)
(* the current statement.                                                  *)
(***************************************************************************)
EXTENDS DslAst, Json, IOUtils, TLCExt
CONSTANTS Depth, AstDepth
D == JsonDeserialize(IOEnv.ALPHABET_FILE)
Calls == D.calls
VARIABLES st, hist, res
vars == <<st, hist, res>>

Nil == [t |-> "nil"]
Node(t, i, k, l, x, sel, wh, grp, hv, ord, lim) ==
    [t |-> t, i |-> i, k |-> k, l |-> l, x |-> x, sel |-> sel, wh |-> wh, grp |-> grp, hv |-> hv, ord |-> ord, lim |-> lim]
Start(i) == Node("start", i, "", Nil, 0, 0, <<>>, 0, <<>>, 0, 0)
QueryN(l) == Node("query", 0, "", l, 0, 0, <<>>, 0, <<>>, 0, 0)
OriginN(n) == n.t \in {"start", "join", "ref"}
Queryable(n) == OriginN(n) \/ n.t = "query"
AsQuery(n) == IF n.t = "query" THEN n ELSE QueryN(n)

Pick(idxs) == [j \in DOMAIN idxs |-> D.pool[idxs[j]]]
RECURSIVE Conj(_), Expand(_), Size(_), Key(_)
\* where(c) on a statement that already has a condition: c AND earlier
Conj(w) == IF w = <<>> THEN NilF
           ELSE IF Len(w) = 1 THEN D.pool[w[1]] ELSE Op("and", <<D.pool[w[1]], Conj(Tail(w))>>)
Expand(n) ==
    CASE n.t = "start" -> D.start[n.i]
      [] n.t = "join" -> JoinOf(Expand(n.l), D.others[n.i], n.k, IF n.x = 0 THEN NilF ELSE D.pool[n.x])
      [] n.t = "ref" -> RefOf(Expand(n.l), n.k)
      [] n.t = "set" -> SetOf(StatementOf(Expand(n.l)), StatementOf(D.setothers[n.i]), n.k)
      [] n.t = "query" ->
            QueryOf(Expand(n.l),
                    IF n.sel = 0 THEN <<>> ELSE Pick(D.sels[n.sel]),
                    Conj(n.wh),
                    IF n.grp = 0 THEN <<>> ELSE Pick(D.groups[n.grp]),
                    Conj(n.hv),
                    IF n.ord = 0 THEN <<>>
                    ELSE [j \in DOMAIN D.orders[n.ord] |-> [x |-> D.pool[D.orders[n.ord][j].x], dir |-> D.orders[n.ord][j].dir]],
                    IF n.lim = 0 THEN <<>> ELSE D.limits[n.lim])
\* number of builder calls needed to reach n = length of the shortest call sequence producing it
Size(n) ==
    CASE n.t = "start" -> 0
      [] n.t = "query" -> Size(n.l) + (IF n.sel = 0 THEN 0 ELSE 1) + Len(n.wh) + (IF n.grp = 0 THEN 0 ELSE 1)
                          + Len(n.hv) + (IF n.ord = 0 THEN 0 ELSE 1) + (IF n.lim = 0 THEN 0 ELSE 1)
      [] OTHER -> 1 + Size(n.l)
Key(n) == IF n.t = "nil" THEN <<>>
          ELSE <<n.t, n.i, n.k, Key(n.l), n.x, n.sel, n.wh, n.grp, n.hv, n.ord, n.lim>>

\* candidate result of a call (Nil: the call does not exist on this sort of statement - BNF typing)
Cand(n, c) ==
    CASE c.m = "select" /\ Queryable(n) -> [AsQuery(n) EXCEPT !.sel = c.a]
      [] c.m = "where" /\ Queryable(n) -> [AsQuery(n) EXCEPT !.wh = <<c.a>> \o @]
      [] c.m = "groupby" /\ Queryable(n) -> [AsQuery(n) EXCEPT !.grp = c.a]
      [] c.m = "having" /\ Queryable(n) -> [AsQuery(n) EXCEPT !.hv = <<c.a>> \o @]
      [] c.m = "orderby" /\ Queryable(n) -> [AsQuery(n) EXCEPT !.ord = c.a]
      [] c.m = "limit" /\ Queryable(n) -> [AsQuery(n) EXCEPT !.lim = c.a]
      [] c.m = "join" /\ OriginN(n) -> Node("join", c.a, c.k, n, c.b, 0, <<>>, 0, <<>>, 0, 0)
      [] c.m = "set" -> Node("set", c.a, c.k, n, 0, 0, <<>>, 0, <<>>, 0, 0)
      [] c.m = "reference" /\ n.t # "ref" -> Node("ref", 0, c.k, n, 0, 0, <<>>, 0, <<>>, 0, 0)
      [] OTHER -> Nil

\* outcome of call c on the current statement: "na" (no such call on this sort of statement), "ok", "GrammarError"
Outcome(c) == LET cand == Cand(st, Calls[c]) IN
              IF cand.t = "nil" THEN [r |-> "na", b |-> <<>>, n |-> Nil]
              ELSE LET b == BrokenIn(Expand(cand)) IN
                   [r |-> IF b = {} THEN "ok" ELSE "GrammarError", b |-> SetToSeq(b), n |-> cand]
\* export, one line per expanded statement: witness call sequence, key, statement (up to AstDepth), schema, and for
\* every call of the alphabet the expected outcome: -1 not applicable, [b |-> broken rule names] for GrammarError,
\* otherwise the top node of the next statement (its l being this statement [last = 0] or this statement's l [1])
Flat(n) == <<n.t, n.i, n.k, n.x, n.sel, n.wh, n.grp, n.hv, n.ord, n.lim, IF n.l = st THEN 0 ELSE 1>>
Shown(o) == IF o.r = "na" THEN -1 ELSE IF o.r = "ok" THEN Flat(o.n) ELSE [b |-> o.b]
Export(out) == PrintT(ToJson([h |-> hist, k |-> Key(st), sch |-> SchemaOf(Expand(st)),
                              asis |-> Collapse(SchemaOf(Expand(st))),      \* as-is model, identifies a known finding
                              ast |-> IF Size(st) <= AstDepth THEN Expand(st) ELSE NilS,
                              v |-> [c \in DOMAIN Calls |-> Shown(out[c])]]))

Init == st \in {Start(i) : i \in DOMAIN D.start} /\ hist = <<>> /\ res = "init"
\* one builder call: ok iff the candidate is well-formed, else GrammarError and the statement stays as it was
Call(c, o) == /\ o.r # "na"
              /\ IF o.r = "ok"
                 THEN st' = o.n /\ hist' = Append(hist, c) /\ res' = "ok"
                 ELSE UNCHANGED <<st, hist>> /\ res' = "GrammarError"
Next == LET out == [c \in DOMAIN Calls |-> Outcome(c)] IN
        Export(out) /\ \E c \in DOMAIN Calls : Call(c, out[c])
Spec == Init /\ [][Next]_vars
View == st
Bound == Size(st) <= Depth

\* every reachable statement conforms and has a schema naming a known kind per output
StateWellFormed == WellFormed(Expand(st))
KnownKinds == {"int", "float", "str", "bool", "date", "ts"}
SchemaDefined == LET sch == SchemaOf(Expand(st)) IN Len(sch) > 0 /\ \A i \in DOMAIN sch : sch[i].kind \in KnownKinds
\* Size is the length of the shortest call sequence (so Bound explores exactly the statements reachable in <= Depth calls)
SizeIsShortest == Size(st) <= Len(hist)
\* a rejected call leaves the statement unchanged (action property; accepted calls: StateWellFormed)
RejectedUnchanged == [][res' = "GrammarError" => st' = st]_vars
=============================================================================
