----------------------------- MODULE TraceBank -----------------------------
(***************************************************************************)
(* C20 - validates traces recorded from the real forml.provider machinery  *)
(* (randomised hierarchies, registration orders and interleaved lookups,   *)
(* larger than the exhaustive constants) against the requirement machine   *)
(* of Bank.tla.  Events:                                                   *)
(*   [op |-> "reg", c, out]         class statement of c: "ok" / "rejected" *)
(*   [op |-> "get", via, t, n, res] via[ref] answered class res (0 = the    *)
(*                                  missing-provider error; -1 = some      *)
(*                                  other exception).  t = 3 / 4: a        *)
(*                                  reference nobody provides, numbered by *)
(*                                  the shape of its module path (Bank!    *)
(*                                  URefsOf); the trace also says which    *)
(*                                  uninstalled search path (`ghost`) the  *)
(*                                  root interface was configured with,    *)
(*                                  and in which way each abstract class   *)
(*                                  is abstract (`ways`, Bank!AbsWays).    *)
(* <<"VERDICT", trace, matched events, length>>                            *)
(***************************************************************************)
EXTENDS Bank, IOUtils, TLCExt
Batch == JsonDeserialize(IOEnv.TRACE_FILE)
VARIABLES tid, l
tvars == <<u, att, acc, imp, gets, hist, tid, l>>
Tr == Batch.traces[tid]
E == Tr.events[l]

TInit == /\ tid \in 1..Len(Batch.traces) /\ l = 1
         /\ u = Uni(Batch.traces[tid].cls, <<0>>)
         /\ Batch.traces[tid].ghost \in GhostsAll    \* (the requirement is the same under each of them)
         /\ WaysOK(Batch.traces[tid].cls, Batch.traces[tid].ways)    \* (... and under each way of being abstract)
         /\ att = <<>> /\ acc = {} /\ imp = {} /\ gets = 0 /\ hist = <<>>
TReg == /\ l <= Len(Tr.events) /\ E.op = "reg"
        /\ Register(E.c)
        /\ (E.out = "ok") <=> (Outcome(E.c) = "ok")
        /\ l' = l + 1 /\ UNCHANGED tid
TGet == /\ l <= Len(Tr.events) /\ E.op = "get"
        /\ E.via \in Vias
        /\ E.t \in {3, 4} => <<E.t, E.n>> \in URefsOf(0..Len(u.cls))
        /\ E.res = Look(E.via, <<E.t, E.n>>)
        /\ l' = l + 1 /\ UNCHANGED <<u, att, acc, imp, gets, hist, tid>>
TNext == TReg \/ TGet
TSpec == TInit /\ [][TNext]_tvars
Track == TLCSet(tid, IF TLCGet(tid) < l THEN l ELSE TLCGet(tid))
ASSUME \A i \in 1..Len(Batch.traces) : TLCSet(i, 0)
Post == \A i \in 1..Len(Batch.traces) : PrintT(<<"VERDICT", i, TLCGet(i) - 1, Len(Batch.traces[i].events)>>)
=============================================================================
