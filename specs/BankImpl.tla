------------------------------ MODULE BankImpl ------------------------------
(***************************************************************************)
(* C20 - as-is model of forml.provider (Service.__init_subclass__,         *)
(* Bank.add, Bank.get) run in lock step with the requirement machine of    *)
(* Bank.tla:                                                               *)
(*   - one bank per interface (BANK[parent]): ib[b] = bindings <<ref, cls>> *)
(*   - a new class walks its MRO bottom-up (itself first, the root last)   *)
(*     and calls add() on every bank: add() raises on a reference bound to *)
(*     another class, else binds the (concrete) class.  Atomic = FALSE is  *)
(*     the code as it stands: a collision found in an upper bank leaves    *)
(*     the bindings already made in the lower banks (partial registration) *)
(*     Atomic = TRUE is the repaired order (check every bank, then bind).  *)
(*   - get(): bound -> answer; else import what the reference discovers    *)
(*     (the qualified name's module; <search package>.<alias> for banks    *)
(*     that own a search path, i.e. the root's) and look again.            *)
(* Invariants: the as-is answers are the requirement's answers.            *)
(***************************************************************************)
EXTENDS Bank
CONSTANT Atomic
VARIABLES ib,      \* per-interface banks
          iacc,    \* classes whose class statement did not raise
          imod     \* modules the as-is loader has executed
ivars == <<u, att, acc, imp, gets, hist, ib, iacc, imod>>

IRefs(c) == {<<2, c>>} \cup (IF u.cls[c].al # 0 THEN {<<1, u.cls[c].al>>} ELSE {})
RECURSIVE ChainSeq(_)
ChainSeq(c) == IF c = 0 THEN <<0>> ELSE <<c>> \o ChainSeq(Par(c))
Collides(bank, c) == \E r \in IRefs(c) : \E x \in bank : x[1] = r /\ x[2] # c
Bind(banks, b, c) == IF Concrete(c) THEN [banks EXCEPT ![b] = @ \cup {<<r, c>> : r \in IRefs(c)}] ELSE banks
RECURSIVE Walk(_, _, _)
Walk(banks, chain, c) ==
    IF chain = <<>> THEN [banks |-> banks, ok |-> TRUE]
    ELSE IF Collides(banks[Head(chain)], c) THEN [banks |-> banks, ok |-> FALSE]       \* raise, nothing undone
    ELSE Walk(Bind(banks, Head(chain), c), Tail(chain), c)
IAdd(banks, c) ==
    IF ~Legal(c) THEN [banks |-> banks, ok |-> FALSE]                                  \* alias on abstract class
    ELSE IF Atomic /\ \E b \in AncSelf(c) : Collides(banks[b], c) THEN [banks |-> banks, ok |-> FALSE]
    ELSE Walk(banks, ChainSeq(c), c)
\* class statements of a set of modules, parents' modules first, classes in id order (collision-free there)
RECURSIVE IAddAll(_, _)
IAddAll(banks, cs) == IF cs = {} THEN banks
                      ELSE LET c == CHOOSE x \in cs : \A y \in cs : x <= y IN IAddAll(IAdd(banks, c).banks, cs \ {c})
Bound(banks, via, r) == {x[2] : x \in {y \in banks[via] : y[1] = r}}
ImplLook(via, r) == One(Bound(ib, via, r))
\* as-is get(): [res, banks, mods]
IGet(via, r) ==
    IF Bound(ib, via, r) # {} THEN [res |-> One(Bound(ib, via, r)), banks |-> ib, mods |-> imod]
    ELSE LET d == Discovers(via, r)
             new == IF d = 0 THEN {} ELSE Closure(d) \ imod
             banks == IAddAll(ib, ClassesOf(new))
         IN [res |-> One(Bound(banks, via, r)), banks |-> banks, mods |-> imod \cup new]

IInit == Init /\ ib = [b \in 0..N |-> {}] /\ iacc = {} /\ imod = {}
IRegister(c) == /\ Register(c)
                /\ ib' = IAdd(ib, c).banks
                /\ iacc' = IF IAdd(ib, c).ok THEN iacc \cup {c} ELSE iacc
                /\ UNCHANGED imod
IImport(m) == /\ Import(m)
              /\ imod' = imod \cup Closure(m)
              /\ ib' = IAddAll(ib, ClassesOf(Closure(m) \ imod))
              /\ iacc' = iacc \cup ClassesOf(Closure(m))
ILookup(via, r) == /\ Lookup(via, r)
                   /\ ib' = IGet(via, r).banks
                   /\ imod' = IGet(via, r).mods
                   /\ iacc' = ClassesOf(IGet(via, r).mods)
INext == \/ \E c \in 1..N : IRegister(c)
         \/ \E m \in 1..M : IImport(m)
         \/ \E v \in 0..N, t \in 1..2, n \in 1..(N + A + 1) : ILookup(v, <<t, n>>)
ISpec == IInit /\ [][INext]_ivars

\* the class statement raises exactly when the requirement rejects the registration
ImplOutcome == iacc = (IF UseModules THEN ClassesOf(imod) ELSE acc)
\* every answer through every reachable interface is the requirement's (direct registration: no lazy imports)
ImplRefines == ~UseModules => \A v \in Vias, r \in Refs : ImplLook(v, r) = Look(v, r)
\* lazy world: the as-is answer is the mandatory one, or - nothing being mandatory - missing or the only class
\* that may be returned; everything the requirement counts as imported is imported
ImplWithin == UseModules => /\ imp \subseteq imod
                            /\ \A v \in Vias, r \in Refs :
                                 LET g == IGet(v, r).res
                                 IN IF Must(v, r) # 0 THEN g = Must(v, r) ELSE g \in {0, Whole(v, r)}
\* whatever the order, the banks are a function of the set of executed class statements (collision-free sets)
ImplOrderFree ==
    (\A c, d \in Tried : (Legal(c) /\ Legal(d) /\ u.cls[c].al # 0 /\ u.cls[c].al = u.cls[d].al) => c = d)
        => \A b \in 0..N : ib[b] = UNION {{<<r, c>> : r \in IRefs(c)} :
                                          c \in {x \in (IF UseModules THEN ClassesOf(imod) ELSE Tried) :
                                                   Legal(x) /\ Concrete(x) /\ b \in AncSelf(x)}}
=============================================================================
