------------------------------ MODULE BankImpl ------------------------------
(***************************************************************************)
(* C20 - as-is model of forml.provider (Service.__init_subclass__,         *)
(* Bank.add, Bank.get) run in lock step with the requirement machine of    *)
(* Bank.tla:                                                               *)
(*   - one bank per interface (BANK[parent]): ib[b] = bindings <<ref, cls>> *)
(*   - a new class walks its MRO bottom-up (itself first, the root last)   *)
(*     and calls add() on every bank: add() raises on a reference bound to *)
(*     another class, else binds the (concrete) class.  Atomic = FALSE is  *)
(*     the code as it stands: a collision found in an upper bank leaves    *)
(*     the bindings already made in the lower banks (partial registration) *)
(*     Atomic = TRUE is the repaired order (check every bank, then bind).  *)
(*   - get(): bound -> answer; else import what the reference discovers    *)
(*     (the qualified name's module; <search package>.<alias> for banks    *)
(*     that own a search path, i.e. the root's) and look again.            *)
(*   - Path.load() of a module path that is not (entirely) installed: the  *)
(*     import error names the first absent prefix of the path; it is       *)
(*     swallowed when that name is a prefix of the path (always, for a     *)
(*     miss caused by the path itself), turned into the missing-provider   *)
(*     error for an explicit search path, and would escape otherwise.      *)
(* Invariants: the as-is answers are the requirement's answers.            *)
(***************************************************************************)
EXTENDS Bank
CONSTANT Atomic
VARIABLES ib,      \* per-interface banks
          iacc,    \* classes whose class statement did not raise
          imod     \* modules the as-is loader has executed
ivars == <<u, att, acc, imp, gets, hist, ib, iacc, imod>>

IRefs(c) == {<<2, c>>} \cup (IF u.cls[c].al # 0 THEN {<<1, u.cls[c].al>>} ELSE {})
RECURSIVE ChainSeq(_)
ChainSeq(c) == IF c = 0 THEN <<0>> ELSE <<c>> \o ChainSeq(Par(c))
Collides(bank, c) == \E r \in IRefs(c) : \E x \in bank : x[1] = r /\ x[2] # c
Bind(banks, b, c) == IF Concrete(c) THEN [banks EXCEPT ![b] = @ \cup {<<r, c>> : r \in IRefs(c)}] ELSE banks
RECURSIVE Walk(_, _, _)
Walk(banks, chain, c) ==
    IF chain = <<>> THEN [banks |-> banks, ok |-> TRUE]
    ELSE IF Collides(banks[Head(chain)], c) THEN [banks |-> banks, ok |-> FALSE]       \* raise, nothing undone
    ELSE Walk(Bind(banks, Head(chain), c), Tail(chain), c)
IAdd(banks, c) ==
    IF ~Legal(c) THEN [banks |-> banks, ok |-> FALSE]                                  \* alias on abstract class
    ELSE IF Atomic /\ \E b \in AncSelf(c) : Collides(banks[b], c) THEN [banks |-> banks, ok |-> FALSE]
    ELSE Walk(banks, ChainSeq(c), c)
\* class statements of a set of modules, parents' modules first, classes in id order (collision-free there)
RECURSIVE IAddAll(_, _)
IAddAll(banks, cs) == IF cs = {} THEN banks
                      ELSE LET c == CHOOSE x \in cs : \A y \in cs : x <= y IN IAddAll(IAdd(banks, c).banks, cs \ {c})
Bound(banks, via, r) == {x[2] : x \in {y \in banks[via] : y[1] = r}}
ImplLook(via, r) == One(Bound(ib, via, r))
\* as-is get(): [res, banks, mods]
IGet(via, r) ==
    IF Bound(ib, via, r) # {} THEN [res |-> One(Bound(ib, via, r)), banks |-> ib, mods |-> imod]
    ELSE LET d == Discovers(via, r)
             new == IF d = 0 THEN {} ELSE Closure(d) \ imod
             banks == IAddAll(ib, ClassesOf(new))
         IN [res |-> One(Bound(banks, via, r)), banks |-> banks, mods |-> imod \cup new]

\* ---- as-is loading of paths that are not installed (shapes of Bank!Shapes; <<s, e>> with e < s: absent) ----
\* the import error carries the first e + 1 segments; as-is filter: path.startswith(that name)
ErrLen(sh) == sh[2] + 1
Swallowed(sh) == ErrLen(sh) <= sh[1]
ILoad(sh, explicit) == IF sh[2] >= sh[1] THEN "loaded"
                       ELSE IF ~Swallowed(sh) THEN "escape"
                       ELSE IF explicit THEN "missing" ELSE "skipped"
ShapeOf(r) == IF r[1] = 3 THEN <<r[2] \div 100, (r[2] % 100) \div 10>> ELSE <<r[2] \div 10, r[2] % 10>>
\* the search paths of the bank of `via` (the root's: its search package, installed, and the ghost gh)
IPaths(via, gh) == IF via # 0 THEN {} ELSE {<<1, 1>>} \cup (IF gh = NoGhost THEN {} ELSE {gh})
\* below a search path of shape b an alias of shape a: everything under an absent package is absent
Below(b, a) == <<b[1] + a[1], IF b[2] < b[1] THEN b[2] ELSE b[2] + a[2]>>
\* the candidate paths get() tries for a reference nobody provides (not explicit), then every search path (explicit)
ICandidates(via, r, gh) == IF r[1] = 3 THEN {ShapeOf(r)} ELSE {Below(b, ShapeOf(r)) : b \in IPaths(via, gh)}
\* as-is answer for r \in URefs: 0 = the missing-provider error (nothing found, or an explicit path not installed),
\* -1 = another exception escapes
IGetUnknown(via, r, gh) == IF \/ \E p \in ICandidates(via, r, gh) : ILoad(p, FALSE) = "escape"
                              \/ \E p \in IPaths(via, gh) : ILoad(p, TRUE) = "escape" THEN -1 ELSE 0

IInit == Init /\ ib = [b \in 0..N |-> {}] /\ iacc = {} /\ imod = {}
IRegister(c) == /\ Register(c)
                /\ ib' = IAdd(ib, c).banks
                /\ iacc' = IF IAdd(ib, c).ok THEN iacc \cup {c} ELSE iacc
                /\ UNCHANGED imod
IImport(m) == /\ Import(m)
              /\ imod' = imod \cup Closure(m)
              /\ ib' = IAddAll(ib, ClassesOf(Closure(m) \ imod))
              /\ iacc' = iacc \cup ClassesOf(Closure(m))
ILookup(via, r) == /\ Lookup(via, r)
                   /\ ib' = IGet(via, r).banks
                   /\ imod' = IGet(via, r).mods
                   /\ iacc' = ClassesOf(IGet(via, r).mods)
INext == \/ \E c \in 1..N : IRegister(c)
         \/ \E m \in 1..M : IImport(m)
         \/ \E v \in 0..N, t \in 1..2, n \in 1..(N + A + 1) : ILookup(v, <<t, n>>)
ISpec == IInit /\ [][INext]_ivars

\* the class statement raises exactly when the requirement rejects the registration
ImplOutcome == iacc = (IF UseModules THEN ClassesOf(imod) ELSE acc)
\* every answer through every reachable interface is the requirement's (direct registration: no lazy imports)
ImplRefines == ~UseModules => \A v \in Vias, r \in Refs : ImplLook(v, r) = Look(v, r)
\* lazy world: the as-is answer is the mandatory one, or - nothing being mandatory - missing or the only class
\* that may be returned; everything the requirement counts as imported is imported
ImplWithin == UseModules => /\ imp \subseteq imod
                            /\ \A v \in Vias, r \in Refs :
                                 LET g == IGet(v, r).res
                                 IN IF Must(v, r) # 0 THEN g = Must(v, r) ELSE g \in {0, Whole(v, r)}
\* references nobody provides are answered with the missing-provider error whatever their shape / the ghost path
\* (nothing is bound under such a reference and nothing is discovered by it: IGet leaves the banks alone)
ImplUnknown == \A v \in Vias, r \in URefs : Bound(ib, v, r) = {} /\ Discovers(v, r) = 0
\* ... so that the answer is IGetUnknown, which depends on the shapes only (the root owns search paths, the other
\* interfaces do not): no shape of reference and no uninstalled search path makes another exception escape
ASSUME \A gh \in GhostsAll, r \in URefsOf(0..9), via \in {0, 1} : IGetUnknown(via, r, gh) = 0
\* whatever the order, the banks are a function of the set of executed class statements (collision-free sets)
ImplOrderFree ==
    (\A c, d \in Tried : (Legal(c) /\ Legal(d) /\ u.cls[c].al # 0 /\ u.cls[c].al = u.cls[d].al) => c = d)
        => \A b \in 0..N : ib[b] = UNION {{<<r, c>> : r \in IRefs(c)} :
                                          c \in {x \in (IF UseModules THEN ClassesOf(imod) ELSE Tried) :
                                                   Legal(x) /\ Concrete(x) /\ b \in AncSelf(x)}}
=============================================================================
