SPECIFICATION Spec
CONSTANT Lits <- ML
INVARIANT Inv
CHECK_DEADLOCK FALSE
