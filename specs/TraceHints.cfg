SPECIFICATION Spec
CONSTANT Lits <- BatchLits
INVARIANT Judge
POSTCONDITION Post
CHECK_DEADLOCK FALSE
