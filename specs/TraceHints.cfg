SPECIFICATION Spec
CONSTANT Lits <- BatchLits
CONSTANT Fixed <- BatchFixed
INVARIANT Judge
POSTCONDITION Post
CHECK_DEADLOCK FALSE
