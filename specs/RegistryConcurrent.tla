-------------------------- MODULE RegistryConcurrent --------------------------
(***************************************************************************)
(* Extension of C05 beyond the listed property: TWO trainers committing to  *)
(* the same release concurrently (the listed property is about one writer   *)
(* and crashes).  Same protocol steps as RegistryImpl (atomic tag), one     *)
(* program counter per writer, no crashes.  TLC shows the lost-update race: *)
(* both writers read the same "last generation", compute the same number,   *)
(* share the generation directory and the second rename replaces the first  *)
(* tag - a committed generation is overwritten (NoLostCommit is violated).  *)
(***************************************************************************)
EXTENDS Naturals, Sequences, FiniteSets, TLC
CONSTANTS NW, MaxGen
VARIABLES gdir, gstates, tag, tagval, stage, pc, cur, committed, nextsid
vars == <<gdir, gstates, tag, tagval, stage, pc, cur, committed, nextsid>>
Writers == 1..NW
Gens == 1..MaxGen
Max(S) == CHOOSE x \in S : \A y \in S : y <= x
Listed == {g \in Gens : g \in gdir /\ tag[g] # "none"}
Init == /\ gdir = {} /\ gstates = [g \in Gens |-> {}] /\ tag = [g \in Gens |-> "none"] /\ tagval = [g \in Gens |-> 0]
        /\ stage = {} /\ pc = [w \in Writers |-> "idle"] /\ cur = [w \in Writers |-> [g |-> 0, sid |-> 0]]
        /\ committed = {} /\ nextsid = 1
Dump(w) == /\ pc[w] = "idle" /\ stage' = stage \cup {nextsid} /\ cur' = [cur EXCEPT ![w] = [g |-> 0, sid |-> nextsid]]
           /\ nextsid' = nextsid + 1 /\ pc' = [pc EXCEPT ![w] = "put"] /\ UNCHANGED <<gdir, gstates, tag, tagval, committed>>
Put(w) == /\ pc[w] = "put"
          /\ LET g == IF Listed = {} THEN 1 ELSE Max(Listed) + 1 IN
               g \in Gens /\ cur' = [cur EXCEPT ![w].g = g] /\ gdir' = gdir \cup {g}
          /\ pc' = [pc EXCEPT ![w] = "move"] /\ UNCHANGED <<gstates, tag, tagval, stage, committed, nextsid>>
Move(w) == /\ pc[w] = "move" /\ stage' = stage \ {cur[w].sid}
           /\ gstates' = [gstates EXCEPT ![cur[w].g] = @ \cup {cur[w].sid}]
           /\ pc' = [pc EXCEPT ![w] = "tag"] /\ UNCHANGED <<gdir, tag, tagval, cur, committed, nextsid>>
TagRename(w) == /\ pc[w] = "tag" /\ tag' = [tag EXCEPT ![cur[w].g] = "full"] /\ tagval' = [tagval EXCEPT ![cur[w].g] = cur[w].sid]
                /\ committed' = committed \cup {<<cur[w].g, cur[w].sid>>}
                /\ pc' = [pc EXCEPT ![w] = "done"] /\ UNCHANGED <<gdir, gstates, stage, cur, nextsid>>
Next == \E w \in Writers : Dump(w) \/ Put(w) \/ Move(w) \/ TagRename(w)
Spec == Init /\ [][Next]_vars
\* every training that reported success is still readable as the generation it was committed as
NoLostCommit == \A c \in committed : tag[c[1]] = "full" /\ tagval[c[1]] = c[2]
OnePerNumber == \A c, d \in committed : c[1] = d[1] => c = d
=============================================================================
