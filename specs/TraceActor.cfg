SPECIFICATION SpecT
CONSTANTS NP = 2
 MaxV = 9
 NI = 3
 Data = {0, 1, 2, 3, 4, 5, 6, 7, 8, 9}
 HTS = {TRUE, FALSE}
 Depth = 99
 Rich = TRUE
CONSTRAINT Track
INVARIANT TypeOK
INVARIANT TransferEquivalence
INVARIANT BuilderParamsWin
INVARIANT UntrainedUnlessFed
INVARIANT StatelessNeverTrained
POSTCONDITION Post
CHECK_DEADLOCK FALSE
