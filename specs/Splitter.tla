------------------------------- MODULE Splitter -------------------------------
(***************************************************************************)
(* C12 (splitter actor).  A fold-splitting actor is trained on (features,   *)
(* labels), asks its cross-validator once for K (train indices, test        *)
(* indices) pairs - arbitrary index sequences: not necessarily             *)
(* complementary, not necessarily covering, possibly overlapping, in any    *)
(* order - and then splits ANY table with the same rows (the features, the  *)
(* labels) into 2K parts: part 2i-1 = the rows at fold i's train indices    *)
(* in that order, part 2i = the rows at its test indices.  Because the      *)
(* indices are fixed at training time, features and labels are split by the *)
(* same fold indices.                                                       *)
(***************************************************************************)
EXTENDS Naturals, Sequences, FiniteSets, TLC, Json
CONSTANTS NRows, K
VARIABLES cv, trained
Rows == 0..(NRows - 1)
\* index sequences: every subset ascending, and descending (an order a shuffling cross-validator may produce)
Asc(S) == LET RECURSIVE F(_) F(T) == IF T = {} THEN <<>> ELSE LET m == CHOOSE x \in T : \A y \in T : x <= y IN <<m>> \o F(T \ {m}) IN F(S)
Desc(S) == LET a == Asc(S) IN [i \in 1..Len(a) |-> a[Len(a) + 1 - i]]
IndexSeqs == {Asc(S) : S \in SUBSET Rows} \cup {Desc(S) : S \in SUBSET Rows}
Pairs == [train : IndexSeqs, test : IndexSeqs]
Init == cv = <<>> /\ trained = FALSE
AddFold == /\ ~trained /\ Len(cv) < K /\ \E p \in Pairs : cv' = Append(cv, p) /\ UNCHANGED trained
Train == /\ ~trained /\ Len(cv) = K /\ trained' = TRUE /\ UNCHANGED cv
Next == AddFold \/ Train
Spec == Init /\ [][Next]_<<cv, trained>>
\* the parts of a table whose row r carries the value data[r + 1]
Take(data, idx) == [j \in 1..Len(idx) |-> data[idx[j] + 1]]
Parts(data) == [p \in 1..(2 * K) |-> IF p % 2 = 1 THEN Take(data, cv[(p + 1) \div 2].train) ELSE Take(data, cv[p \div 2].test)]
Features == [r \in 1..NRows |-> 100 + r - 1]
Labels == [r \in 1..NRows |-> 200 + r - 1]
\* features and labels of one record always land at the same position of the same part
Synced == trained => \A p \in 1..(2 * K) : \A j \in 1..Len(Parts(Features)[p]) : Parts(Labels)[p][j] = Parts(Features)[p][j] + 100
Export == trained => PrintT(ToJson([cv |-> cv, features |-> Parts(Features), labels |-> Parts(Labels)]))
=============================================================================
