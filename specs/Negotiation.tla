----------------------------- MODULE Negotiation -----------------------------
(***************************************************************************)
(* C19.  Content negotiation of the serving gateways.                      *)
(*                                                                         *)
(* A header (Accept / Content-Type) arrives as a sequence of media ranges  *)
(*      [t, s, opts, q]      kind = t "/" s  ("*" = wildcard),             *)
(*                           opts = set of <<key, value>> (keys unique),   *)
(*                           q    = quality in thousandths 0..1000, or NoQ *)
(*                                  (no q parameter, weighs like q=1).     *)
(* State: `hdr` = the ranges read so far in header order, `pref` = the     *)
(* client's preference order over them (indexes into hdr) maintained range *)
(* by range.  Requirement (checked as invariants):                         *)
(*   parse    - pref is the permutation sorted by descending quality with  *)
(*              ties kept in header order (= ParseOrder(hdr), rank based); *)
(*   match    - Match(p, c): kind of c fits kind of p as a wildcard        *)
(*              pattern (Glob over the TEXT of the kind: "*" = any run of  *)
(*              characters, anywhere in it; everything else literally and  *)
(*              in full) and every option of p is present in c with the    *)
(*              same value (c concrete);                                   *)
(*   encoder  - EncoderSet: the supported encoders matched by the FIRST    *)
(*              range in preference order that matches any (empty set =    *)
(*              the unsupported-encoding error);                           *)
(*   decoder  - DecoderSet(c): the supported decoders whose encoding       *)
(*              matches the declared (concrete, most preferred) content    *)
(*              type (empty = unsupported-encoding error).                 *)
(*   request  - ReplySet(ct, ps): a request with content type ct and the   *)
(*              parsed Accept header ps is answered over ps alone (the     *)
(*              behaviours over both headers: NegotiationRequest.tla).     *)
(* Implementation level (as-is model, drift only): Rule = "pattern-outer"  *)
(* picks the first encoder in table order for that first range, the first  *)
(* decoder in table order.  Rule = "encoder-outer" (loops swapped) is the  *)
(* known-bad variant which TLC must refute (ImplEncoderRefines).           *)
(*                                                                         *)
(* q = 0 is the lowest quality: parse puts such ranges behind every        *)
(* positive one, ties in header order (demanded like for any other         *)
(* quality).  For the CHOICE the property text ("first supported one in    *)
(* the preference order") and RFC 7231 ("q=0: not acceptable") differ on   *)
(* one point only - whether a zero-weighted range may be the decisive one  *)
(* when no positive range is supported; both outcomes are allowed there    *)
(* (EncoderSetZ / ReplySetZ = the choice over the positive ranges alone).  *)
(* A zero-weighted range never beats a supported positive one.             *)
(*                                                                         *)
(* Not modelled (property silent, excluded in the generators):             *)
(* malformed q / empty ranges / quoted strings, duplicate option keys,     *)
(* wildcards in the concrete side of Match, case of option VALUES.         *)
(***************************************************************************)
EXTENDS Integers, Sequences, FiniteSets, TLC, Json
CONSTANTS MaxLen,     \* headers of 0..MaxLen ranges
          Kinds,      \* set of [t, s]
          OptSets,    \* set of option sets
          Qs,         \* subset of 1..1000 \cup {NoQ}
          Rule,       \* "pattern-outer" | "encoder-outer"   (implementation level only)
          ExportFrom  \* export expected values for headers of >= ExportFrom ranges (0 = never)
VARIABLES hdr, pref
vars == <<hdr, pref>>

NoQ == 2000
K(t, s) == [t |-> t, s |-> s]
Fmt(f) == <<"format", f>>
Utf8 == <<"charset", "utf-8">>
Enc(t, s, o) == [t |-> t, s |-> s, opts |-> o]
Strip(r) == Enc(r.t, r.s, r.opts)

(*************************** the supported codecs **************************)
(* facts about forml.io.layout (the driver checks them against the code):   *)
JsonEnc(f) == Enc("application", "json", {Fmt(f)})
Csv == Enc("text", "csv", {})
Encoders == <<JsonEnc("pandas-records"), JsonEnc("pandas-columns"), JsonEnc("pandas-index"),
              JsonEnc("pandas-split"), JsonEnc("pandas-table"), JsonEnc("pandas-values"), Csv>>
Decoders == <<JsonEnc("pandas-columns"), JsonEnc("pandas-index"), JsonEnc("pandas-records"),
              JsonEnc("pandas-split"), JsonEnc("pandas-table"), JsonEnc("pandas-values"),
              Enc("application", "json", {}), Csv>>

(************************* constant domains for cfg ************************)
KindsFull == {K("*", "*"), K("application", "*"), K("application", "json"), K("text", "csv"), K("text", "*"),
              K("foo", "bar")}
KindsSmall == {K("application", "*"), K("application", "json"), K("text", "csv"), K("foo", "bar")}
\* kinds around the supported ones: longer / shorter by a few characters at either end, wildcards inside a component
KindsGlob == {K("application", "json"), K("application", "jsonl"), K("application", "x-json"), K("xapplication", "json"),
              K("application", "js"), K("text", "csv"), K("text", "csv-schema"), K("text", "cs"), K("tex", "csv"), K("*", "*"),
              K("*", "json"), K("*", "js*"), K("app*", "json"), K("application", "j*n"), K("*", "*sv"), K("t*t", "c*v"),
              K("*", "*n*")}
\* for the run over zero weights: the first encoder of the table, a whole-component wildcard, an unsupported kind
KindsZero == {K("application", "json"), K("text", "*"), K("foo", "bar")}
OptsNone == {{}}
OptsFull == {{}, {Fmt("pandas-records")}, {Fmt("pandas-split")}, {Utf8}, {Fmt("pandas-records"), Utf8},
             {Fmt("pandas-split"), Utf8}}
OptsMid == {{}, {Fmt("pandas-split")}, {Utf8}}
OptsSmall == {{}, {Fmt("pandas-split")}}
QsFull == {NoQ, 100, 500, 1000}
QsSmall == {NoQ, 500, 1000}
QsTwo == {NoQ, 500}
QsOne == {NoQ}
QsZero == {NoQ, 0, 500, 1000}     \* the lowest quality next to a middle one and the two spellings of the highest

Ranges == {[t |-> k.t, s |-> k.s, opts |-> o, q |-> q] : k \in Kinds, o \in OptSets, q \in Qs}

(******************************** parse ************************************)
W(r) == IF r.q = NoQ THEN 1000 ELSE r.q
\* requirement: range i is preferred to range j
Before(h, i, j) == W(h[i]) > W(h[j]) \/ (W(h[i]) = W(h[j]) /\ i < j)
Rank(h, i) == 1 + Cardinality({j \in 1..Len(h) : Before(h, j, i)})
ParseOrder(h) == [p \in 1..Len(h) |-> CHOOSE i \in 1..Len(h) : Rank(h, i) = p]
Parsed(h) == [p \in 1..Len(h) |-> Strip(h[ParseOrder(h)[p]])]
\* the ranges of positive quality, in header order (RFC 7231: q=0 = "not acceptable")
Positive(h) == SelectSeq(h, LAMBDA r : W(r) > 0)

(******************************** match ************************************)
\* the kind of an encoding is the text  t "/" s ; the kind of a pattern is a glob over that text: every "*" stands
\* for any (possibly empty) run of characters, every other character for itself, the WHOLE text has to be covered.
\* Glob(p, s): a pattern without "*" covers itself only; otherwise what stands before its first "*" starts the text
\* and the rest of the pattern covers some end of what follows
KindText(e) == e.t \o "/" \o e.s
Ch(s, i) == SubSeq(s, i, i)
StarsAt(s) == {i \in 1..Len(s) : Ch(s, i) = "*"}
HasStar(s) == StarsAt(s) # {}
RECURSIVE Glob(_, _)
Glob(p, s) ==
    LET n == Len(p)
        m == Len(s)
        at == StarsAt(p)
    IN IF at = {} THEN p = s
       ELSE LET i == CHOOSE x \in at : \A y \in at : x <= y        \* the first "*": it stands for s[i..j]
            IN /\ m >= i - 1
               /\ SubSeq(p, 1, i - 1) = SubSeq(s, 1, i - 1)
               /\ \E j \in (i - 1)..m : Glob(SubSeq(p, i + 1, n), SubSeq(s, j + 1, m))
\* the familiar special case: a pattern whose components are either "*" or free of wildcards fits a kind (of
\* wildcard- and "/"-free components) component by component
HasSlash(s) == \E i \in 1..Len(s) : Ch(s, i) = "/"
Plain(x) == x = "*" \/ ~HasStar(x)
ComponentFits(p, c) == (p.t = "*" \/ p.t = c.t) /\ (p.s = "*" \/ p.s = c.s)
\* (evaluation only: components known to hold neither a wildcard nor a "/" - checked by GlobLemmas, like the agreement
\* of the short cuts below with Glob; written out because TLC's coverage accounting copies a computed definition to
\* every place it is used from)
SolidComps == {"application", "json", "text", "csv", "foo", "bar", "jsonl", "x-json", "xapplication", "js",
               "csv-schema", "cs", "tex", "plain", "html", "xml", "image", "octet-stream"}
KindsElse == {K("text", "plain"), K("text", "html"), K("application", "xml"), K("image", "*"), K("*", "csv")}
KnownK == {K(k.t, k.s) : k \in Kinds \cup KindsFull \cup KindsGlob \cup KindsElse}
              \cup {K(Encoders[e].t, Encoders[e].s) : e \in 1..Len(Encoders)}
              \cup {K(Decoders[d].t, Decoders[d].s) : d \in 1..Len(Decoders)}
Concrete(c) == (c.t \in SolidComps /\ c.s \in SolidComps) \/ ~HasStar(KindText(c))
KindFits(p, c) ==
    IF p.t \in SolidComps /\ p.s \in SolidComps
    THEN p.t = c.t /\ p.s = c.s      \* no wildcard (and no "/" inside a component): the pattern fits itself only
    ELSE IF (p.t = "*" \/ p.t \in SolidComps) /\ (p.s = "*" \/ p.s \in SolidComps) /\ c.t \in SolidComps /\ c.s \in SolidComps
    THEN ComponentFits(p, c)
    ELSE Glob(KindText(p), KindText(c))
Match(p, c) == p.opts \subseteq c.opts /\ Concrete(c) /\ KindFits(p, c)

(*************************** encoder / decoder *****************************)
Min(S) == CHOOSE x \in S : \A y \in S : x <= y
Hits(p) == {e \in 1..Len(Encoders) : Match(p, Encoders[e])}
\* ps = the parsed header (encodings in preference order)
EncoderSet(ps) == LET live == {i \in 1..Len(ps) : Hits(ps[i]) # {}}
                  IN IF live = {} THEN {} ELSE Hits(ps[Min(live)])
DecoderSet(c) == {d \in 1..Len(Decoders) : Match(Decoders[d], c)}
ImplEncoder(ps) ==
    IF Rule = "encoder-outer"
    THEN LET es == {e \in 1..Len(Encoders) : \E i \in 1..Len(ps) : Match(ps[i], Encoders[e])}
         IN IF es = {} THEN 0 ELSE Min(es)
    ELSE LET S == EncoderSet(ps) IN IF S = {} THEN 0 ELSE Min(S)
ImplDecoder(c) == LET D == DecoderSet(c) IN IF D = {} THEN 0 ELSE Min(D)

(****************************** request glue *******************************)
\* A request carries the encoding ct of its payload (most preferred range of its Content-Type) and the parsed Accept
\* header ps (<<>> = no Accept header).  The response is negotiated over the client's own list; only a client that
\* stated no preference at all is (as-is default, not demanded by the property) answered in the encoding it sent.
AcceptList(ct, ps) == IF ps = <<>> THEN <<ct>> ELSE ps
ReplySet(ct, ps) == EncoderSet(AcceptList(ct, ps))
\* the choice when zero-weighted ranges are read as "not acceptable": over the positive ranges of header h alone.
\* (zero-weighted ranges come last in Parsed(h): this is EncoderSet(Parsed(h)) or - no positive range supported - {})
EncoderSetZ(h) == EncoderSet(Parsed(Positive(h)))
\* h = the Accept header in header order (<<>> = none: as ReplySet)
ReplySetZ(ct, h) == IF h = <<>> THEN ReplySet(ct, <<>>) ELSE EncoderSetZ(h)
\* outcome o (an encoder index, 0 = the unsupported-encoding error) is allowed by the set S of admissible encoders
Allows(S, o) == IF S = {} THEN o = 0 ELSE o \in S

(****************************** behaviours *********************************)
Init == hdr = <<>> /\ pref = <<>>
\* the next range of the header is read: it goes behind every range that weighs at least as much
AddRange(r) ==
    LET n == Len(hdr) + 1
        k == Cardinality({i \in 1..Len(pref) : W(hdr[pref[i]]) >= W(r)})
    IN /\ r.q \in (0..1000) \cup {NoQ}
       /\ hdr' = Append(hdr, r)
       /\ pref' = SubSeq(pref, 1, k) \o <<n>> \o SubSeq(pref, k + 1, Len(pref))
AddDefault == Len(hdr) < MaxLen /\ \E r \in Ranges : r.q = NoQ /\ AddRange(r)
AddWeighted == Len(hdr) < MaxLen /\ \E r \in Ranges : r.q # NoQ /\ AddRange(r)
Next == AddDefault \/ AddWeighted
Spec == Init /\ [][Next]_vars

(******************************* invariants ********************************)
N == Len(hdr)
Mine == [p \in 1..N |-> Strip(hdr[pref[p]])]
TypeOK == Len(pref) = N /\ \A p \in 1..N : pref[p] \in 1..N
PrefPermutation == \A i \in 1..N : \E p \in 1..N : pref[p] = i
PrefDescending == \A p \in 1..N, r \in 1..N : p < r => W(hdr[pref[p]]) >= W(hdr[pref[r]])
PrefStable == \A p \in 1..N, r \in 1..N : (p < r /\ W(hdr[pref[p]]) = W(hdr[pref[r]])) => pref[p] < pref[r]
PrefIsParseOrder == pref = ParseOrder(hdr)
\* encoder clause, stated without EncoderSet: unsupported iff nothing matches; otherwise every allowed encoder is
\* matched by a range such that no strictly preferred range matches any encoder at all
EncoderSound ==
    LET S == EncoderSet(Mine) IN
    /\ (S = {}) <=> (\A p \in 1..N, e \in 1..Len(Encoders) : ~Match(Mine[p], Encoders[e]))
    /\ \A e \in S : \E p \in 1..N : /\ Match(Mine[p], Encoders[e])
                                    /\ \A r \in 1..(p - 1), x \in 1..Len(Encoders) : ~Match(Mine[r], Encoders[x])
                                    /\ \A x \in 1..Len(Encoders) : Match(Mine[p], Encoders[x]) => x \in S
ImplEncoderRefines == LET S == EncoderSet(Mine)
                          I == ImplEncoder(Mine)
                      IN IF S = {} THEN I = 0 ELSE I \in S
\* zero-weighted ranges: behind every positive one (whatever the header order); reading them as "not acceptable"
\* changes the outcome only into the unsupported-encoding error, and only if no positive range is supported
NPos == Cardinality({i \in 1..N : W(hdr[i]) > 0})
MinePos == SubSeq(Mine, 1, NPos)
ZeroLast == /\ \A p \in 1..N : (W(hdr[pref[p]]) > 0) <=> (p <= NPos)
            /\ MinePos = Parsed(Positive(hdr))
            /\ EncoderSetZ(hdr) \in {EncoderSet(Mine), {}}
            /\ EncoderSetZ(hdr) = {} <=> \A p \in 1..NPos, e \in 1..Len(Encoders) : ~Match(Mine[p], Encoders[e])
DecoderSound ==
    (N > 0 /\ Concrete(Mine[1])) =>
        LET D == DecoderSet(Mine[1])
            I == ImplDecoder(Mine[1])
        IN /\ \A d \in D : KindFits(Decoders[d], Mine[1]) /\ Decoders[d].opts \subseteq Mine[1].opts
           /\ (I = 0) <=> (D = {})
           /\ I # 0 => I \in D

(**************************** lemmas about Match ***************************)
Patterns == {Enc(k.t, k.s, o) : k \in Kinds \cup {K("*", "json")}, o \in OptSets}
Concretes == {c \in Patterns : Concrete(c)} \cup {Encoders[e] : e \in 1..Len(Encoders)}
                 \cup {Decoders[d] : d \in 1..Len(Decoders)}
MatchLemmas ==
    /\ \A c \in Concretes : Match(Enc("*", "*", {}), c) /\ Match(c, c)
    /\ \A p \in Patterns, c \in Concretes : Match(p, c) => \A o \in SUBSET p.opts : Match(Enc(p.t, p.s, o), c)
    /\ \A p \in Patterns, c \in Concretes : Match(p, c) => Match(p, Enc(c.t, c.s, c.opts \cup {<<"x-extra", "1">>}))
    /\ \A p \in Patterns, c \in Concretes : (Concrete(p) /\ Match(p, c)) => (p.t = c.t /\ p.s = c.s)
ASSUME MatchLemmas
\* lemmas about the wildcard fit of kinds
Stars(s) == Cardinality(StarsAt(s))
GlobLemmas(z) ==     \* (a parameter: TLC evaluates parameterless constant definitions in every run)
    LET PK == {KindText(p) : p \in Patterns}
        CK == {KindText(c) : c \in Concretes}
    IN \* without wildcards a kind fits itself only; neither a longer nor a shorter text
       /\ \A p \in PK, c \in CK : ~HasStar(p) => (Glob(p, c) <=> p = c)
       /\ \A c \in CK : ~Glob(c, c \o "l") /\ ~Glob(c, "x" \o c) /\ ~Glob(c \o "l", c) /\ ~Glob(c, "")
       \* whole-component wildcards: component by component
       /\ \A p \in Patterns, c \in Concretes : (Plain(p.t) /\ Plain(p.s)) => (KindFits(p, c) <=> ComponentFits(p, c))
       \* the short cuts of KindFits / Concrete give the answers of the definition
       /\ \A x \in SolidComps : ~HasStar(x) /\ ~HasSlash(x)
       /\ \A p \in KnownK, c \in KnownK : /\ KindFits(p, c) <=> Glob(KindText(p), KindText(c))
                                          /\ Concrete(Enc(c.t, c.s, {})) <=> ~HasStar(KindText(c))
       /\ \A p \in KnownK, c \in KnownK :                                \* also against kinds not named here
              /\ KindFits(p, K(c.t, c.s \o "l")) <=> Glob(KindText(p), KindText(K(c.t, c.s \o "l")))
              /\ KindFits(p, K("x/y" \o c.t, c.s)) <=> Glob(KindText(p), KindText(K("x/y" \o c.t, c.s)))
       \* every character of the pattern other than "*" is used up by a character of its own
       /\ \A p \in PK, c \in CK : Glob(p, c) => Len(c) >= Len(p) - Stars(p)
       \* a leading "*" skips a prefix, a trailing "*" a suffix - and nothing else does
       /\ \A p \in PK, c \in CK : Glob("*" \o p, c) <=> \E j \in 1..(Len(c) + 1) : Glob(p, SubSeq(c, j, Len(c)))
       /\ \A p \in PK, c \in CK : Glob(p \o "*", c) <=> \E j \in 0..Len(c) : Glob(p, SubSeq(c, 1, j))
       /\ \A c \in CK : Glob("*", c) /\ Glob("*/*", c) /\ Glob("*" \o c, c) /\ Glob(c \o "*", c)
ASSUME Kinds = KindsGlob => GlobLemmas(0)   \* in the run over the kinds around the supported ones (richest Patterns)

(********************************* export **********************************)
MatchTable == {[p |-> p, c |-> c, m |-> Match(p, c)] : p \in Patterns, c \in Concretes}
ASSUME ExportFrom = 1 => PrintT(ToJson([encoders |-> Encoders, decoders |-> Decoders, match |-> MatchTable]))
Export == (ExportFrom > 0 /\ N >= ExportFrom) =>
    PrintT(ToJson([hdr |-> hdr, order |-> pref, parsed |-> Mine,
                   enc |-> EncoderSet(Mine), ienc |-> ImplEncoder(Mine),
                   encz |-> EncoderSetZ(hdr),       \* zero-weighted ranges read as "not acceptable": allowed as well
                   conc |-> Concrete(Mine[1]),
                   dec |-> IF Concrete(Mine[1]) THEN DecoderSet(Mine[1]) ELSE {},
                   idec |-> IF Concrete(Mine[1]) THEN ImplDecoder(Mine[1]) ELSE 0]))
=============================================================================
