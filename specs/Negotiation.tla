----------------------------- MODULE Negotiation -----------------------------
(***************************************************************************)
(* C19.  Content negotiation of the serving gateways.                      *)
(*                                                                         *)
(* A header (Accept / Content-Type) arrives as a sequence of media ranges  *)
(*      [t, s, opts, q]      kind = t "/" s  ("*" = wildcard component),   *)
(*                           opts = set of <<key, value>> (keys unique),   *)
(*                           q    = quality in thousandths 1..1000, or NoQ *)
(*                                  (no q parameter, weighs like q=1).     *)
(* State: `hdr` = the ranges read so far in header order, `pref` = the     *)
(* client's preference order over them (indexes into hdr) maintained range *)
(* by range.  Requirement (checked as invariants):                         *)
(*   parse    - pref is the permutation sorted by descending quality with  *)
(*              ties kept in header order (= ParseOrder(hdr), rank based); *)
(*   match    - Match(p, c): kind of c fits kind of p as a wildcard        *)
(*              pattern and every option of p is present in c with the     *)
(*              same value (c concrete);                                   *)
(*   encoder  - EncoderSet: the supported encoders matched by the FIRST    *)
(*              range in preference order that matches any (empty set =    *)
(*              the unsupported-encoding error);                           *)
(*   decoder  - DecoderSet(c): the supported decoders whose encoding       *)
(*              matches the declared (concrete, most preferred) content    *)
(*              type (empty = unsupported-encoding error).                 *)
(* Implementation level (as-is model, drift only): Rule = "pattern-outer"  *)
(* picks the first encoder in table order for that first range, the first  *)
(* decoder in table order.  Rule = "encoder-outer" (loops swapped) is the  *)
(* known-bad variant which TLC must refute (ImplEncoderRefines).           *)
(*                                                                         *)
(* Not modelled (property silent, excluded in the generators): q=0,        *)
(* malformed q / empty ranges / quoted strings, duplicate option keys,     *)
(* wildcards in the concrete side of Match, case of option VALUES.         *)
(***************************************************************************)
EXTENDS Integers, Sequences, FiniteSets, TLC, Json
CONSTANTS MaxLen,     \* headers of 0..MaxLen ranges
          Kinds,      \* set of [t, s]
          OptSets,    \* set of option sets
          Qs,         \* subset of 1..1000 \cup {NoQ}
          Rule,       \* "pattern-outer" | "encoder-outer"   (implementation level only)
          ExportFrom  \* export expected values for headers of >= ExportFrom ranges (0 = never)
VARIABLES hdr, pref
vars == <<hdr, pref>>

NoQ == 2000
K(t, s) == [t |-> t, s |-> s]
Fmt(f) == <<"format", f>>
Utf8 == <<"charset", "utf-8">>
Enc(t, s, o) == [t |-> t, s |-> s, opts |-> o]
Strip(r) == Enc(r.t, r.s, r.opts)

(*************************** the supported codecs **************************)
(* facts about forml.io.layout (the driver checks them against the code):   *)
JsonEnc(f) == Enc("application", "json", {Fmt(f)})
Csv == Enc("text", "csv", {})
Encoders == <<JsonEnc("pandas-records"), JsonEnc("pandas-columns"), JsonEnc("pandas-index"),
              JsonEnc("pandas-split"), JsonEnc("pandas-table"), JsonEnc("pandas-values"), Csv>>
Decoders == <<JsonEnc("pandas-columns"), JsonEnc("pandas-index"), JsonEnc("pandas-records"),
              JsonEnc("pandas-split"), JsonEnc("pandas-table"), JsonEnc("pandas-values"),
              Enc("application", "json", {}), Csv>>

(************************* constant domains for cfg ************************)
KindsFull == {K("*", "*"), K("application", "*"), K("application", "json"), K("text", "csv"), K("text", "*"),
              K("foo", "bar")}
KindsSmall == {K("application", "*"), K("application", "json"), K("text", "csv"), K("foo", "bar")}
OptsFull == {{}, {Fmt("pandas-records")}, {Fmt("pandas-split")}, {Utf8}, {Fmt("pandas-records"), Utf8},
             {Fmt("pandas-split"), Utf8}}
OptsMid == {{}, {Fmt("pandas-split")}, {Utf8}}
OptsSmall == {{}, {Fmt("pandas-split")}}
QsFull == {NoQ, 100, 500, 1000}
QsSmall == {NoQ, 500, 1000}

Ranges == {[t |-> k.t, s |-> k.s, opts |-> o, q |-> q] : k \in Kinds, o \in OptSets, q \in Qs}

(******************************** parse ************************************)
W(r) == IF r.q = NoQ THEN 1000 ELSE r.q
\* requirement: range i is preferred to range j
Before(h, i, j) == W(h[i]) > W(h[j]) \/ (W(h[i]) = W(h[j]) /\ i < j)
Rank(h, i) == 1 + Cardinality({j \in 1..Len(h) : Before(h, j, i)})
ParseOrder(h) == [p \in 1..Len(h) |-> CHOOSE i \in 1..Len(h) : Rank(h, i) = p]
Parsed(h) == [p \in 1..Len(h) |-> Strip(h[ParseOrder(h)[p]])]

(******************************** match ************************************)
Concrete(c) == c.t # "*" /\ c.s # "*"
KindFits(p, c) == (p.t = "*" \/ p.t = c.t) /\ (p.s = "*" \/ p.s = c.s)
Match(p, c) == Concrete(c) /\ KindFits(p, c) /\ p.opts \subseteq c.opts

(*************************** encoder / decoder *****************************)
Min(S) == CHOOSE x \in S : \A y \in S : x <= y
Hits(p) == {e \in 1..Len(Encoders) : Match(p, Encoders[e])}
\* ps = the parsed header (encodings in preference order)
EncoderSet(ps) == LET live == {i \in 1..Len(ps) : Hits(ps[i]) # {}}
                  IN IF live = {} THEN {} ELSE Hits(ps[Min(live)])
DecoderSet(c) == {d \in 1..Len(Decoders) : Match(Decoders[d], c)}
ImplEncoder(ps) ==
    IF Rule = "encoder-outer"
    THEN LET es == {e \in 1..Len(Encoders) : \E i \in 1..Len(ps) : Match(ps[i], Encoders[e])}
         IN IF es = {} THEN 0 ELSE Min(es)
    ELSE IF EncoderSet(ps) = {} THEN 0 ELSE Min(EncoderSet(ps))
ImplDecoder(c) == IF DecoderSet(c) = {} THEN 0 ELSE Min(DecoderSet(c))

(****************************** behaviours *********************************)
Init == hdr = <<>> /\ pref = <<>>
\* the next range of the header is read: it goes behind every range that weighs at least as much
AddRange(r) ==
    LET n == Len(hdr) + 1
        k == Cardinality({i \in 1..Len(pref) : W(hdr[pref[i]]) >= W(r)})
    IN /\ r.q \in (1..1000) \cup {NoQ}
       /\ hdr' = Append(hdr, r)
       /\ pref' = SubSeq(pref, 1, k) \o <<n>> \o SubSeq(pref, k + 1, Len(pref))
AddDefault == Len(hdr) < MaxLen /\ \E r \in Ranges : r.q = NoQ /\ AddRange(r)
AddWeighted == Len(hdr) < MaxLen /\ \E r \in Ranges : r.q # NoQ /\ AddRange(r)
Next == AddDefault \/ AddWeighted
Spec == Init /\ [][Next]_vars

(******************************* invariants ********************************)
N == Len(hdr)
Mine == [p \in 1..N |-> Strip(hdr[pref[p]])]
TypeOK == Len(pref) = N /\ \A p \in 1..N : pref[p] \in 1..N
PrefPermutation == \A i \in 1..N : \E p \in 1..N : pref[p] = i
PrefDescending == \A p \in 1..N, r \in 1..N : p < r => W(hdr[pref[p]]) >= W(hdr[pref[r]])
PrefStable == \A p \in 1..N, r \in 1..N : (p < r /\ W(hdr[pref[p]]) = W(hdr[pref[r]])) => pref[p] < pref[r]
PrefIsParseOrder == pref = ParseOrder(hdr)
\* encoder clause, stated without EncoderSet: unsupported iff nothing matches; otherwise every allowed encoder is
\* matched by a range such that no strictly preferred range matches any encoder at all
EncoderSound ==
    LET S == EncoderSet(Mine) IN
    /\ (S = {}) <=> (\A p \in 1..N, e \in 1..Len(Encoders) : ~Match(Mine[p], Encoders[e]))
    /\ \A e \in S : \E p \in 1..N : /\ Match(Mine[p], Encoders[e])
                                    /\ \A r \in 1..(p - 1), x \in 1..Len(Encoders) : ~Match(Mine[r], Encoders[x])
                                    /\ \A x \in 1..Len(Encoders) : Match(Mine[p], Encoders[x]) => x \in S
ImplEncoderRefines == LET S == EncoderSet(Mine) IN IF S = {} THEN ImplEncoder(Mine) = 0 ELSE ImplEncoder(Mine) \in S
DecoderSound ==
    (N > 0 /\ Concrete(Mine[1])) =>
        /\ \A d \in DecoderSet(Mine[1]) : KindFits(Decoders[d], Mine[1]) /\ Decoders[d].opts \subseteq Mine[1].opts
        /\ (ImplDecoder(Mine[1]) = 0) <=> (DecoderSet(Mine[1]) = {})
        /\ ImplDecoder(Mine[1]) # 0 => ImplDecoder(Mine[1]) \in DecoderSet(Mine[1])

(**************************** lemmas about Match ***************************)
Patterns == {Enc(k.t, k.s, o) : k \in Kinds \cup {K("*", "json")}, o \in OptSets}
Concretes == {c \in Patterns : Concrete(c)} \cup {Encoders[e] : e \in 1..Len(Encoders)}
                 \cup {Decoders[d] : d \in 1..Len(Decoders)}
MatchLemmas ==
    /\ \A c \in Concretes : Match(Enc("*", "*", {}), c) /\ Match(c, c)
    /\ \A p \in Patterns, c \in Concretes : Match(p, c) => \A o \in SUBSET p.opts : Match(Enc(p.t, p.s, o), c)
    /\ \A p \in Patterns, c \in Concretes : Match(p, c) => Match(p, Enc(c.t, c.s, c.opts \cup {<<"x-extra", "1">>}))
    /\ \A p \in Patterns, c \in Concretes : (Concrete(p) /\ Match(p, c)) => (p.t = c.t /\ p.s = c.s)
ASSUME MatchLemmas

(********************************* export **********************************)
MatchTable == {[p |-> p, c |-> c, m |-> Match(p, c)] : p \in Patterns, c \in Concretes}
ASSUME ExportFrom = 1 => PrintT(ToJson([encoders |-> Encoders, decoders |-> Decoders, match |-> MatchTable]))
Export == (ExportFrom > 0 /\ N >= ExportFrom) =>
    PrintT(ToJson([hdr |-> hdr, order |-> pref, parsed |-> Mine,
                   enc |-> EncoderSet(Mine), ienc |-> ImplEncoder(Mine),
                   conc |-> Concrete(Mine[1]),
                   dec |-> IF Concrete(Mine[1]) THEN DecoderSet(Mine[1]) ELSE {},
                   idec |-> IF Concrete(Mine[1]) THEN ImplDecoder(Mine[1]) ELSE 0]))
=============================================================================
