------------------------------- MODULE TakeIndex -------------------------------
(***************************************************************************)
(* C15 (row / column selections, index domain).  take_rows / take_columns  *)
(* follow plain (Python sequence / matrix) index semantics for EVERY        *)
(* integer index, not only 0..n-1: an index i with -n <= i < n selects      *)
(* element i mod n (negative indices count from the end), any other index   *)
(* is refused - it is never clipped or wrapped.  The matrix holds pairwise  *)
(* distinct values 10*r + c so that a selection identifies its source.      *)
(***************************************************************************)
EXTENDS Integers, Sequences, TLC, Json
CONSTANTS N, M, MaxLen
VARIABLE ix
Cell(r, c) == 10 * r + c
Rows == [r \in 1..N |-> [c \in 1..M |-> Cell(r - 1, c - 1)]]
Range == (-(N + 1))..N \cup (-(M + 1))..M
Lists == UNION {[1..k -> Range] : k \in 1..MaxLen}
Init == ix \in Lists
Next == UNCHANGED ix
Spec == Init /\ [][Next]_ix
Valid(i, n) == -n <= i /\ i < n
Pos(i, n) == (IF i < 0 THEN n + i ELSE i) + 1
TakeRows == IF \A k \in DOMAIN ix : Valid(ix[k], N) THEN [ok |-> TRUE, rows |-> [k \in DOMAIN ix |-> Rows[Pos(ix[k], N)]]]
            ELSE [ok |-> FALSE, rows |-> <<>>]
TakeColumns == IF \A k \in DOMAIN ix : Valid(ix[k], M)
               THEN [ok |-> TRUE, rows |-> [r \in 1..N |-> [k \in DOMAIN ix |-> Rows[r][Pos(ix[k], M)]]]]
               ELSE [ok |-> FALSE, rows |-> <<>>]
\* every selected value really is the cell the index denotes
Sound == TakeRows.ok => \A k \in DOMAIN ix : TakeRows.rows[k][1] = Cell(Pos(ix[k], N) - 1, 0)
Export == PrintT(ToJson([ix |-> ix, rows |-> TakeRows, cols |-> TakeColumns]))
=============================================================================
