------------------------------- MODULE TakeIndex -------------------------------
(***************************************************************************)
(* C15 (row / column selections, index domain).  take_rows / take_columns  *)
(* follow plain (Python sequence / matrix) index semantics for EVERY        *)
(* integer index, not only 0..n-1: an index i with -n <= i < n selects      *)
(* element i mod n (negative indices count from the end), any other index   *)
(* is refused - it is never clipped or wrapped.  The matrix holds pairwise  *)
(* distinct values 10*r + c so that a selection identifies its source.      *)
(*                                                                          *)
(* The argument is a Sequence[int]: what is selected depends on the         *)
(* integers it holds, in their order, and on nothing else.  Python has      *)
(* several such sequences; besides the ones that spell their members out    *)
(* (list, tuple) there is the arithmetic progression range(start, stop,     *)
(* step), whose members are given by RangeSeq below (any sign of the step,  *)
(* bounds anywhere, possibly empty).  Every argument is exported with the   *)
(* list it denotes; the driver hands it to the real code in every form      *)
(* that denotes it.                                                         *)
(***************************************************************************)
EXTENDS Integers, Sequences, TLC, Json
CONSTANTS N, M, MaxLen,
          MaxStep     \* the progressions step by -MaxStep .. MaxStep (not 0); 0 = no progression
VARIABLE arg          \* [form: "list" | "range", ix (list), start, stop, step (range)]
Steps == {s \in (-MaxStep)..MaxStep : s # 0}
Cell(r, c) == 10 * r + c
Rows == [r \in 1..N |-> [c \in 1..M |-> Cell(r - 1, c - 1)]]
Range == (-(N + 1))..N \cup (-(M + 1))..M
Lists == UNION {[1..k -> Range] : k \in 1..MaxLen}
\* bounds of a progression: the whole neighbourhood of the valid indices, one beyond on either side (a stop of -(n + 1)
\* / n + 1 is what a progression running over the whole axis backwards / in steps of 2 ends with)
Bounds == (-(N + 2))..(N + 1) \cup (-(M + 2))..(M + 1)
Listed(ix) == [form |-> "list", ix |-> ix, start |-> 0, stop |-> 0, step |-> 0]
Progression(a, b, s) == [form |-> "range", ix |-> <<>>, start |-> a, stop |-> b, step |-> s]
\* members of Python's range(a, b, s), s # 0
RangeLen(a, b, s) == IF s > 0 THEN (IF b > a THEN (b - a + s - 1) \div s ELSE 0)
                     ELSE (IF a > b THEN (a - b + (-s) - 1) \div (-s) ELSE 0)
RangeSeq(a, b, s) == [k \in 1..RangeLen(a, b, s) |-> a + (k - 1) * s]
Ix == IF arg.form = "list" THEN arg.ix ELSE RangeSeq(arg.start, arg.stop, arg.step)
Init == arg \in {Listed(ix) : ix \in Lists} \cup {Progression(a, b, s) : a \in Bounds, b \in Bounds, s \in Steps}
Next == UNCHANGED arg
Spec == Init /\ [][Next]_arg
Valid(i, n) == -n <= i /\ i < n
Pos(i, n) == (IF i < 0 THEN n + i ELSE i) + 1
TakeRows == IF \A k \in DOMAIN Ix : Valid(Ix[k], N) THEN [ok |-> TRUE, rows |-> [k \in DOMAIN Ix |-> Rows[Pos(Ix[k], N)]]]
            ELSE [ok |-> FALSE, rows |-> <<>>]
TakeColumns == IF \A k \in DOMAIN Ix : Valid(Ix[k], M)
               THEN [ok |-> TRUE, rows |-> [r \in 1..N |-> [k \in DOMAIN Ix |-> Rows[r][Pos(Ix[k], M)]]]]
               ELSE [ok |-> FALSE, rows |-> <<>>]
\* every selected value really is the cell the index denotes
Sound == TakeRows.ok => \A k \in DOMAIN Ix : TakeRows.rows[k][1] = Cell(Pos(Ix[k], N) - 1, 0)
\* a progression is what its definition says: starts at start, moves by step, stays strictly before stop, is maximal
ProgressionSound == arg.form = "range" =>
    /\ \A k \in DOMAIN Ix : /\ Ix[k] = arg.start + (k - 1) * arg.step
                            /\ IF arg.step > 0 THEN Ix[k] < arg.stop ELSE Ix[k] > arg.stop
    /\ LET beyond == arg.start + Len(Ix) * arg.step IN IF arg.step > 0 THEN beyond >= arg.stop ELSE beyond <= arg.stop
Export == PrintT(ToJson([form |-> arg.form, start |-> arg.start, stop |-> arg.stop, step |-> arg.step,
                         ix |-> Ix, rows |-> TakeRows, cols |-> TakeColumns]))
=============================================================================
