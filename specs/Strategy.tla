------------------------------ MODULE Strategy ------------------------------
(***************************************************************************)
(* C17 (A/B part).  Model-selection by target shares.                      *)
(*                                                                         *)
(* Requirement level: after every request n, every variant i has been      *)
(* selected count[i] times with |count[i] - n*w[i]/W| <= 1, and a request   *)
(* is always answered.  The state is the *deficit* vector                  *)
(*      d[i] = w[i]*n - W*count[i]                                         *)
(* (so the bound reads |d[i]| <= W); every selection rule that looks only  *)
(* at shares is a function of d, the reachable deficit graph is finite,    *)
(* and TLC's verdict therefore covers EVERY request count n.               *)
(*                                                                         *)
(* Implementation level: Rule names the slot-selection rule               *)
(*   "first"  - first slot (descending target order) with count/n < target *)
(*              (forml <= 0bb2ca9)                                         *)
(*   "maxdef" - eligible slot that is furthest behind its share            *)
(*   "any"    - requirement level: any slot keeping the bound              *)
(***************************************************************************)
EXTENDS Integers, Sequences, FiniteSets, TLC
CONSTANTS K,      \* number of variants
          MaxW,   \* weights range over 1..MaxW
          Rule
VARIABLES w, d
vars == <<w, d>>
Slots == 1..K
RECURSIVE SumTo(_, _)
SumTo(f, i) == IF i = 0 THEN 0 ELSE f[i] + SumTo(f, i - 1)
W == SumTo(w, K)

\* slots are kept in descending target order (the implementation sorts them so)
Vectors == {v \in [Slots -> 1..MaxW] : \A i \in 1..(K - 1) : v[i] >= v[i + 1]}

Init == w \in Vectors /\ d = [i \in Slots |-> 0]

\* deficit of slot i as seen by request n (total already incremented, count not yet)
Ahead(i) == d[i] + w[i]
Eligible(i) == Ahead(i) > 0                       \* count/n < w/W
After(s) == [i \in Slots |-> Ahead(i) - (IF i = s THEN W ELSE 0)]
Within(dd) == \A i \in Slots : dd[i] <= W /\ -dd[i] <= W

FirstEligible == {i \in Slots : Eligible(i) /\ \A j \in 1..(i - 1) : ~Eligible(j)}
MaxDeficit == {i \in Slots : Eligible(i) /\ \A j \in Slots : Eligible(j) =>
                     (Ahead(i) > Ahead(j) \/ (Ahead(i) = Ahead(j) /\ i <= j))}
\* the same rules with ties left open (floating point arithmetic may resolve an exact tie either way)
MaxDeficitAnyTie == {i \in Slots : Eligible(i) /\ \A j \in Slots : Eligible(j) => Ahead(i) >= Ahead(j)}
\* earliest deadline first: the eligible slot whose next selection is due first. The deadline of slot i is
\* (count[i] + 1) / share[i] = n/W + (W - d[i]) / (W * w[i]); n/W is common to all slots, so the order of deadlines is
\* a function of the deficits alone: (W - d[i]) * w[j] < (W - d[j]) * w[i].
Earlier(i, j) == (W - d[i]) * w[j] < (W - d[j]) * w[i]
Tied(i, j) == (W - d[i]) * w[j] = (W - d[j]) * w[i]
Edf == {i \in Slots : Eligible(i) /\ \A j \in Slots : Eligible(j) => (Earlier(i, j) \/ (Tied(i, j) /\ i <= j))}
EdfAnyTie == {i \in Slots : Eligible(i) /\ \A j \in Slots : Eligible(j) => (Earlier(i, j) \/ Tied(i, j))}
AnyWithin == {i \in Slots : Within(After(i))}
Pick == CASE Rule = "first" -> FirstEligible
          [] Rule = "maxdef" -> MaxDeficit
          [] Rule = "maxdef-anytie" -> MaxDeficitAnyTie
          [] Rule = "edf" -> Edf
          [] Rule = "edf-anytie" -> EdfAnyTie
          [] OTHER -> AnyWithin

Select(s) == s \in Pick /\ d' = After(s) /\ UNCHANGED w
Next == \E s \in Slots : Select(s)
Spec == Init /\ [][Next]_vars

NeverFails == Pick # {}
ShareBound == Within(d)
\* conservation: deficits always sum to zero (sanity of the abstraction)
Conserved == SumTo(d, K) = 0
=============================================================================
