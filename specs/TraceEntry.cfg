SPECIFICATION TraceSpec
CONSTANTS Kinds = {"int", "flt", "str", "date", "ts"}
 Pool = 9
 MaxQ = 5
 MaxE = 7
 NRows = 4
 NVariants = 1
 AllowDup = TRUE
 CastRule = "asis"
 ExportOn = FALSE
CONSTRAINT Track
POSTCONDITION Post
CHECK_DEADLOCK FALSE
