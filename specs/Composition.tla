----------------------------- MODULE Composition -----------------------------
(***************************************************************************)
(* C03 / C12 / C04 - denotational semantics of pipeline expressions.       *)
(*                                                                         *)
(* An expression denotes a trunk function F = [a, t, l]: three terms over   *)
(* the symbols A (apply-mode features), T (train-mode features), L          *)
(* (labels).  App(actor, state, x...) is the output of applying an actor,   *)
(* St(actor, prev, x, y) the state after training it on (x, y); a stateful  *)
(* actor is always applied with the state trained on exactly the features   *)
(* and labels produced by the path preceding it.  Composition is            *)
(* substitution (After).  Written from docs/workflow/operator.rst,          *)
(* topology.rst, evaluation.rst and the operator docstrings - not from the  *)
(* wiring code.                                                             *)
(*                                                                         *)
(* Expression = [op, sf, k, kids]; actor labels are derived from the        *)
(* position x of the operator in the expression (child i of x is 10x+i,     *)
(* helper actors 10x+5..9) - the Python driver uses the same numbering.     *)
(***************************************************************************)
EXTENDS Integers, Sequences, FiniteSets, TLC, Json
Nil == [tag |-> "nil", id |-> 0, args |-> <<>>]
T(tag, id, args) == [tag |-> tag, id |-> id, args |-> args]
SymA == T("sym", 1, <<>>)
SymT == T("sym", 2, <<>>)
SymL == T("sym", 3, <<>>)
Origin == [a |-> SymA, t |-> SymT, l |-> SymL]
App(id, s, xs) == T("app", id, <<s>> \o xs)
St(id, prev, x, y) == T("st", id, <<prev, x, y>>)
Out(i, x) == T("out", i, <<x>>)
RECURSIVE Sub(_, _)
Sub(x, F) == IF x.tag = "sym" THEN (CASE x.id = 1 -> F.a [] x.id = 2 -> F.t [] OTHER -> F.l)
             ELSE [x EXCEPT !.args = [i \in DOMAIN x.args |-> Sub(x.args[i], F)]]
After(G, F) == [a |-> Sub(G.a, F), t |-> Sub(G.t, F), l |-> Sub(G.l, F)]
Env(a, t, l) == [a |-> a, t |-> t, l |-> l]

E(op, sf, k, kids) == [op |-> op, sf |-> sf, k |-> k, kids |-> kids]
Simple == {"mapper", "apply", "train", "label"}

(* fold parts produced by a splitter with label `split` trained on (T, L); port 2i = train, 2i+1 = test (0-based) *)
Sp(split) == St(split, Nil, SymT, SymL)
Xtr(split, i) == Out(2 * i + 1, App(split, Sp(split), <<SymT>>))
Xte(split, i) == Out(2 * i + 2, App(split, Sp(split), <<SymT>>))
Ytr(split, i) == Out(2 * i + 1, App(split, Sp(split), <<SymL>>))
Yte(split, i) == Out(2 * i + 2, App(split, Sp(split), <<SymL>>))

RECURSIVE Expand(_, _), Compose(_, _, _)
(* the expression e (at position x) expanded on its own: a trunk function over its origin *)
Expand(e, x) == IF e.op = "seq" THEN Compose(e.kids[2], 10 * x + 2, Expand(e.kids[1], 10 * x + 1))
                ELSE Compose(e, x, Origin)
(* operator / expression r (at position x) composed with a scope whose expansion is F *)
Compose(r, x, F) ==
  LET S == IF r.sf THEN St(x, Nil, F.t, F.l) ELSE Nil IN
  CASE r.op = "seq"    -> After(Expand(r, x), F)
    \* "custom": a mapper written by hand against the public composition API (one builder object kept by the operator)
    [] r.op \in {"mapper", "custom"} -> [a |-> App(x, S, <<F.a>>), t |-> App(x, S, <<F.t>>), l |-> F.l]
    \* "chain": a hand-written operator chaining TWO workers (10x+1 feeding 10x+2) that hands over only their head nodes
    \* (the documented `left.extend(apply_head, train_head)` recipe: the tails are traced)
    [] r.op = "chain" ->
         LET S1 == IF r.sf THEN St(10 * x + 1, Nil, F.t, F.l) ELSE Nil
             a1 == App(10 * x + 1, S1, <<F.a>>)
             t1 == App(10 * x + 1, S1, <<F.t>>)
             S2 == IF r.sf THEN St(10 * x + 2, Nil, t1, F.l) ELSE Nil
         IN [a |-> App(10 * x + 2, S2, <<a1>>), t |-> App(10 * x + 2, S2, <<t1>>), l |-> F.l]
    [] r.op = "apply"  -> [a |-> App(x, S, <<F.a>>), t |-> F.t, l |-> F.l]
    [] r.op = "train"  -> [a |-> F.a, t |-> App(x, S, <<F.t>>), l |-> F.l]
    [] r.op = "label"  -> [a |-> F.a, t |-> F.t, l |-> App(x, S, <<F.l>>)]
    [] r.op \in {"lmapper", "lapply", "ltrain"} ->
         \* one operator combining a label actor (label 10x+1, stateful iff r.k = 1) with a main actor (label x): the label
         \* actor transforms the labels first, the main actor is trained on the labels it produces
         LET Sl == IF r.k = 1 THEN St(10 * x + 1, Nil, F.t, F.l) ELSE Nil
             l2 == App(10 * x + 1, Sl, <<F.l>>)
             Sm == IF r.sf THEN St(x, Nil, F.t, l2) ELSE Nil
         IN [a |-> IF r.op = "ltrain" THEN F.a ELSE App(x, Sm, <<F.a>>),
             t |-> IF r.op = "lapply" THEN F.t ELSE App(x, Sm, <<F.t>>),
             l |-> l2]
    [] r.op = "dump"   -> [a |-> App(x, Nil, <<F.a>>), t |-> F.t, l |-> F.l]     \* + a sink trained on (t, l)
    [] r.op = "mapreduce" ->
         LET Si(i) == IF r.kids[i].sf THEN St(10 * x + i, Nil, F.t, F.l) ELSE Nil IN
         [a |-> App(10 * x + 9, Nil, [i \in DOMAIN r.kids |-> App(10 * x + i, Si(i), <<F.a>>)]),
          t |-> App(10 * x + 9, Nil, [i \in DOMAIN r.kids |-> App(10 * x + i, Si(i), <<F.t>>)]),
          l |-> F.l]
    [] r.op = "twice"  -> [a |-> F.a, t |-> App(10 * x + 9, Nil, <<F.t, F.t>>), l |-> F.l]
    [] r.op = "stack"  ->
         LET split == 10 * x + 5   stacker == 10 * x + 6   appender == 10 * x + 7   reducer == 10 * x + 8
             folds == 0..(r.k - 1)
             trainenv(i) == Env(SymA, Xtr(split, i), Ytr(split, i))
             ftr(i) == Sub(F.t, trainenv(i))
             flb(i) == Sub(F.l, trainenv(i))
             fap(i) == Sub(F.a, trainenv(i))
             fte(i) == Sub(F.a, Env(Xte(split, i), Xtr(split, i), Ytr(split, i)))
             B(j) == Expand(r.kids[j], 10 * x + j)
             pte(j, i) == Sub(B(j).a, Env(fte(i), ftr(i), flb(i)))
             pap(j, i) == Sub(B(j).a, Env(fap(i), ftr(i), flb(i)))
         IN [t |-> App(appender, Nil, [j \in DOMAIN r.kids |-> App(stacker, Nil, [i \in 1..r.k |-> pte(j, i - 1)])]),
             l |-> App(stacker, Nil, [i \in 1..r.k |-> Yte(split, i - 1)]),
             a |-> App(appender, Nil, [j \in DOMAIN r.kids |-> App(reducer, Nil, [i \in 1..r.k |-> pap(j, i - 1)])])]
    [] r.op \in {"crossval", "holdout"} ->
         LET split == 10 * x + 5   metric == 10 * x + 6   reducer == 10 * x + 7
             nf == IF r.op = "holdout" THEN 1 ELSE r.k
             pred(i) == Sub(F.a, Env(Xte(split, i), Xtr(split, i), Ytr(split, i)))
             score(i) == App(metric, Nil, <<Yte(split, i), pred(i)>>)
         IN [a |-> SymA, l |-> SymL,
             t |-> IF nf = 1 THEN score(0) ELSE App(reducer, Nil, [i \in 1..nf |-> score(i - 1)])]
    [] OTHER -> F

(* closing an expression for execution: Source >> e >> Probe *)
\* same shape as the feed extract operator: an apply reader; a train reader followed by a 1:2 slicer (features, labels)
Slice == App(904, Nil, <<App(902, Nil, <<>>)>>)
Src == [a |-> App(901, Nil, <<>>), t |-> Out(1, Slice), l |-> Out(2, Slice)]
ProbeId == 990
Probe == E("mapper", TRUE, 0, <<>>)
Closed(e) == After(Compose(Probe, ProbeId, Expand(e, 1)), Src)
ClosedEval(e) == After(Expand(e, 1), Src)

(* ------------------------------------------------------------------ *)
(* leak freedom as a syntactic property of terms (C12)                  *)
RECURSIVE OutIdx(_)
OutIdx(x) == (IF x.tag = "out" THEN {x.id} ELSE {}) \cup UNION {OutIdx(x.args[i]) : i \in DOMAIN x.args}
RECURSIVE States(_)
States(x) == (IF x.tag = "st" THEN {x} ELSE {}) \cup UNION {States(x.args[i]) : i \in DOMAIN x.args}
\* every fold part mentioned inside a trained state of `pred` is the train part of fold i, except the splitter's own
\* state, which is trained on the unsplit data by definition
FoldClean(pred, split, i) == \A s \in States(pred) : s.id # split => \A o \in OutIdx(s) : o = 2 * i + 1

(* ------------------------------------------------------------------ *)
(* expression universes                                                  *)
Leaf == {E(o, s, 0, <<>>) : o \in Simple, s \in BOOLEAN} \cup {E("dump", TRUE, 0, <<>>)}
Combos == {E(o, s, k, <<>>) : o \in {"lmapper", "lapply", "ltrain"}, s \in BOOLEAN, k \in {0, 1}}
Mappers == {E("mapper", s, 0, <<>>) : s \in BOOLEAN}
MapReduces == {E("mapreduce", FALSE, 0, ks) : ks \in [1..2 -> Mappers]}
Twice == {E("twice", FALSE, 0, <<>>)}
Chains == {E("chain", s, 0, <<>>) : s \in BOOLEAN}
Seqs(Ls, Rs) == {E("seq", FALSE, 0, <<l, r>>) : l \in Ls, r \in Rs}
Stacks(Bs, Ks) == {E("stack", FALSE, k, bs) : k \in Ks, bs \in [1..1 -> Bs] \cup [1..2 -> Bs]}
=============================================================================
