---------------------------- MODULE TraceWindows ----------------------------
(***************************************************************************)
(* C10, code -> spec.  Validates observations recorded from the real forml *)
(* extraction path (project.Source.query -> Feed.load -> extract drivers   *)
(* -> parser -> SQLite, or through Runner.train / Runner.apply) against    *)
(* the requirement of WindowsBase.tla.                                     *)
(*                                                                         *)
(* One trace = one source over one data set:                               *)
(*   sem   semantic named by the `once` spelling the source was built with *)
(*   ord   does the source have an ordinal column                          *)
(*   data  data[k] = ordinal position of the record with id k              *)
(*   chain TRUE when the launches are consecutive windows (upper bound of  *)
(*         one = effective lower bound of the next): tiling is judged      *)
(*   ev    launches: via ("load" | "apply" | "train"), lo, hi (NONE = not  *)
(*         given), last (ordinal of the last training tag, NONE if none),  *)
(*         res ("ok" | "refused" = the launch raised), rows (ids of the    *)
(*         records delivered, with repetitions)                            *)
(* A launch is accepted iff the delivered bag is exactly the window the    *)
(* documented semantic denotes (or the launch is refused where it must     *)
(* be); a chained trace is accepted iff, in addition, the delivery counts  *)
(* satisfy every tiling clause of the property (Finish).                   *)
(***************************************************************************)
EXTENDS WindowsBase, Sequences, FiniteSets, TLC, Json, IOUtils, TLCExt
Batch == JsonDeserialize(IOEnv.TRACE_FILE)
VARIABLES tid, l, cnt
vars == <<tid, l, cnt>>
Tr == Batch.traces[tid]
Ids == 1..Len(Tr.data)
Eff(e) == IF e.via = "train" THEN EffLower(e.lo, e.last) ELSE e.lo
Expected(e) == {k \in Ids : InWindow(Tr.sem, Eff(e), e.hi, Tr.data[k])}
Occ(rows, k) == Cardinality({j \in 1..Len(rows) : rows[j] = k})
\* the delivered bag is the set S, each record once
Delivers(e, S) == /\ Len(e.rows) = Cardinality(S)
                  /\ {e.rows[j] : j \in 1..Len(e.rows)} = S

Init == tid \in 1..Len(Batch.traces) /\ l = 1 /\ cnt = [k \in 1..Len(Batch.traces[tid].data) |-> 0]

Launch == /\ l <= Len(Tr.ev)
          /\ LET e == Tr.ev[l] IN
               /\ IF Refuse(Tr.ord, e.lo, e.hi)
                    THEN e.res = "refused" /\ Len(e.rows) = 0
                    ELSE e.res = "ok" /\ Delivers(e, IF Tr.ord THEN Expected(e) ELSE Ids)
               /\ cnt' = [k \in Ids |-> cnt[k] + Occ(e.rows, k)]
          /\ l' = l + 1 /\ UNCHANGED tid

\* tiling clauses over the whole chained sequence, record by record
Edges == {Eff(Tr.ev[j]) : j \in 1..Len(Tr.ev)} \cup {Tr.ev[j].hi : j \in 1..Len(Tr.ev)}
Chained == \A j \in 1..(Len(Tr.ev) - 1) : Tr.ev[j].hi # NONE /\ Tr.ev[j].hi = Eff(Tr.ev[j + 1])
Finish == /\ l = Len(Tr.ev) + 1
          /\ (Tr.chain /\ Tr.ord /\ Len(Tr.ev) > 0) =>
                /\ Chained
                /\ \A k \in Ids : RecordOK(Tr.sem, TRUE, Eff(Tr.ev[1]), Tr.ev[Len(Tr.ev)].hi,
                                           Edges \ {NONE}, Tr.data[k], cnt[k])
          /\ l' = l + 1 /\ UNCHANGED <<tid, cnt>>

Next == Launch \/ Finish
Spec == Init /\ [][Next]_vars
\* furthest point reached per trace; accepted iff it is Len(ev) + 2
Track == TLCSet(tid, IF TLCGet(tid) < l THEN l ELSE TLCGet(tid))
ASSUME \A t \in 1..Len(Batch.traces) : TLCSet(t, 0)
Post == \A t \in 1..Len(Batch.traces) :
           PrintT(<<"VERDICT", t, TLCGet(t) - 1, Len(Batch.traces[t].ev) + 1>>)
=============================================================================
