SPECIFICATION Spec
CONSTANTS Threads = {1, 2}
 Inventory = {"app", "other"}
 Wanted <- W2
 Variant = "updates"
INVARIANT ValidNeverMissing
INVARIANT UnknownNeverServed
CHECK_DEADLOCK FALSE
