---------------------------- MODULE RegistryImpl ----------------------------
(***************************************************************************)
(* C05 - the posix registry protocol, one file-system operation per step,  *)
(* a crash possible between any two steps and inside a metadata write.     *)
(*                                                                         *)
(* File system of one project:                                             *)
(*   <release>/package           none | partial | full   (+ temp copy)     *)
(*   <release>/.stage/<sid>      partial | full                            *)
(*   <release>/<gen>/            directory, moved states, tag              *)
(*   <release>/<gen>/tag         none | partial | full    (+ temp copy)    *)
(* A release is LISTED iff its package exists, a generation iff its tag    *)
(* exists (whatever the content) - this is what a fresh reader does.       *)
(*                                                                         *)
(* Protocol = "inplace": package and tag are created and then written in   *)
(* place (forml <= 0bb2ca9);  "atomic": written to a temporary name and    *)
(* renamed.  The requirement-level history `hist` / `published` advances    *)
(* at the linearization point (the item becoming visible).                 *)
(***************************************************************************)
EXTENDS Naturals, Sequences, FiniteSets, TLC
CONSTANTS NR, MaxGen, MaxStates, MaxOps, Protocol
VARIABLES pkg, pkgtmp, stage, gdir, gstates, tag, tagtmp, tagval,   \* file system
          pc, cur,                                                   \* the (single) writer
          hist, published, nextsid, ops
fsvars == <<pkg, pkgtmp, stage, gdir, gstates, tag, tagtmp, tagval>>
vars == <<pkg, pkgtmp, stage, gdir, gstates, tag, tagtmp, tagval, pc, cur, hist, published, nextsid, ops>>
Rel == 1..NR
Gens == 1..MaxGen
NoCur == [r |-> 0, g |-> 0, sids |-> <<>>, i |-> 0]

Init == /\ pkg = [r \in Rel |-> "none"] /\ pkgtmp = [r \in Rel |-> "none"]
        /\ stage = [r \in Rel |-> {}]                         \* set of <<sid, content>>
        /\ gdir = [r \in Rel |-> {}]                          \* existing generation directories
        /\ gstates = [r \in Rel |-> [g \in Gens |-> {}]]      \* sids moved into the generation directory
        /\ tag = [r \in Rel |-> [g \in Gens |-> "none"]] /\ tagtmp = [r \in Rel |-> [g \in Gens |-> "none"]]
        /\ tagval = [r \in Rel |-> [g \in Gens |-> <<>>]]     \* states listed by the (full) tag
        /\ pc = "idle" /\ cur = NoCur
        /\ hist = [r \in Rel |-> <<>>] /\ published = {} /\ nextsid = 1 /\ ops = 0

\* ---------- what a fresh reader lists ----------
ListedRel == {r \in Rel : pkg[r] # "none"}
ListedGen(r) == {g \in Gens : g \in gdir[r] /\ tag[r][g] # "none"}
Max(S) == CHOOSE x \in S : \A y \in S : y <= x
StagedFull(r, s) == <<s, "full">> \in stage[r]

\* ---------- publish release v ----------
PublishStart(v) == /\ pc = "idle" /\ ops < MaxOps /\ ops' = ops + 1
                   /\ IF ListedRel = {} \/ v > Max(ListedRel)
                      THEN pc' = "pub-create" /\ cur' = [NoCur EXCEPT !.r = v]
                      ELSE pc' = "idle" /\ cur' = NoCur                      \* rejected: not an increment
                   /\ UNCHANGED <<fsvars, hist, published, nextsid>>
PubCreate == /\ pc = "pub-create"
             /\ IF Protocol = "inplace" THEN pkg' = [pkg EXCEPT ![cur.r] = "partial"] /\ UNCHANGED pkgtmp
                                       ELSE pkgtmp' = [pkgtmp EXCEPT ![cur.r] = "partial"] /\ UNCHANGED pkg
             /\ pc' = "pub-write" /\ UNCHANGED <<stage, gdir, gstates, tag, tagtmp, tagval, cur, hist, published, nextsid, ops>>
PubWrite == /\ pc = "pub-write"
            /\ IF Protocol = "inplace"
               THEN /\ pkg' = [pkg EXCEPT ![cur.r] = "full"] /\ UNCHANGED pkgtmp
                    /\ pc' = "idle" /\ cur' = NoCur /\ published' = published \cup {cur.r}
               ELSE /\ pkgtmp' = [pkgtmp EXCEPT ![cur.r] = "full"] /\ UNCHANGED <<pkg, published, cur>> /\ pc' = "pub-rename"
            /\ UNCHANGED <<stage, gdir, gstates, tag, tagtmp, tagval, hist, nextsid, ops>>
PubRename == /\ pc = "pub-rename"
             /\ pkg' = [pkg EXCEPT ![cur.r] = pkgtmp[cur.r]] /\ pkgtmp' = [pkgtmp EXCEPT ![cur.r] = "none"]
             /\ published' = published \cup {cur.r} /\ pc' = "idle" /\ cur' = NoCur
             /\ UNCHANGED <<stage, gdir, gstates, tag, tagtmp, tagval, hist, nextsid, ops>>

\* ---------- train release r: dump n states, then commit a generation ----------
TrainStart(r, n) == /\ pc = "idle" /\ ops < MaxOps /\ ops' = ops + 1 /\ r \in ListedRel /\ pkg[r] = "full"
                    /\ Len(hist[r]) < MaxGen
                    /\ cur' = [r |-> r, g |-> 0, sids |-> [k \in 1..n |-> nextsid + k - 1], i |-> 1]
                    /\ nextsid' = nextsid + n /\ pc' = IF n = 0 THEN "put" ELSE "stage-create"
                    /\ UNCHANGED <<fsvars, hist, published>>
StageCreate == /\ pc = "stage-create"
               /\ stage' = [stage EXCEPT ![cur.r] = @ \cup {<<cur.sids[cur.i], "partial">>}]
               /\ pc' = "stage-write" /\ UNCHANGED <<pkg, pkgtmp, gdir, gstates, tag, tagtmp, tagval, cur, hist, published, nextsid, ops>>
StageWrite == /\ pc = "stage-write"
              /\ stage' = [stage EXCEPT ![cur.r] = (@ \ {<<cur.sids[cur.i], "partial">>}) \cup {<<cur.sids[cur.i], "full">>}]
              /\ IF cur.i < Len(cur.sids) THEN cur' = [cur EXCEPT !.i = @ + 1] /\ pc' = "stage-create"
                                          ELSE cur' = [cur EXCEPT !.i = 1] /\ pc' = "put"
              /\ UNCHANGED <<pkg, pkgtmp, gdir, gstates, tag, tagtmp, tagval, hist, published, nextsid, ops>>
\* Release.put: the generation number is one above the highest LISTED generation
Put == /\ pc = "put"
       /\ LET g == IF ListedGen(cur.r) = {} THEN 1 ELSE Max(ListedGen(cur.r)) + 1 IN
            /\ g \in Gens
            /\ cur' = [cur EXCEPT !.g = g] /\ gdir' = [gdir EXCEPT ![cur.r] = @ \cup {g}]       \* mkdir (exist_ok)
       /\ pc' = IF Len(cur.sids) = 0 THEN "tag-create" ELSE "move"
       /\ UNCHANGED <<pkg, pkgtmp, stage, gstates, tag, tagtmp, tagval, hist, published, nextsid, ops>>
Move == /\ pc = "move" /\ StagedFull(cur.r, cur.sids[cur.i])
        /\ stage' = [stage EXCEPT ![cur.r] = @ \ {<<cur.sids[cur.i], "full">>}]
        /\ gstates' = [gstates EXCEPT ![cur.r][cur.g] = @ \cup {cur.sids[cur.i]}]
        /\ IF cur.i < Len(cur.sids) THEN cur' = [cur EXCEPT !.i = @ + 1] /\ pc' = "move" ELSE pc' = "tag-create" /\ UNCHANGED cur
        /\ UNCHANGED <<pkg, pkgtmp, gdir, tag, tagtmp, tagval, hist, published, nextsid, ops>>
TagCreate == /\ pc = "tag-create"
             /\ IF Protocol = "inplace" THEN tag' = [tag EXCEPT ![cur.r][cur.g] = "partial"] /\ UNCHANGED tagtmp
                                       ELSE tagtmp' = [tagtmp EXCEPT ![cur.r][cur.g] = "partial"] /\ UNCHANGED tag
             /\ pc' = "tag-write" /\ UNCHANGED <<pkg, pkgtmp, stage, gdir, gstates, tagval, cur, hist, published, nextsid, ops>>
Commit == hist' = [hist EXCEPT ![cur.r] = Append(@, cur.sids)]
TagWrite == /\ pc = "tag-write"
            /\ tagval' = [tagval EXCEPT ![cur.r][cur.g] = cur.sids]
            /\ IF Protocol = "inplace"
               THEN tag' = [tag EXCEPT ![cur.r][cur.g] = "full"] /\ UNCHANGED tagtmp /\ Commit /\ pc' = "idle" /\ cur' = NoCur
               ELSE tagtmp' = [tagtmp EXCEPT ![cur.r][cur.g] = "full"] /\ UNCHANGED <<tag, hist, cur>> /\ pc' = "tag-rename"
            /\ UNCHANGED <<pkg, pkgtmp, stage, gdir, gstates, published, nextsid, ops>>
TagRename == /\ pc = "tag-rename"
             /\ tag' = [tag EXCEPT ![cur.r][cur.g] = tagtmp[cur.r][cur.g]] /\ tagtmp' = [tagtmp EXCEPT ![cur.r][cur.g] = "none"]
             /\ Commit /\ pc' = "idle" /\ cur' = NoCur
             /\ UNCHANGED <<pkg, pkgtmp, stage, gdir, gstates, tagval, published, nextsid, ops>>
\* the process dies: the file system stays as it is, the operation is forgotten
Crash == /\ pc # "idle" /\ pc' = "idle" /\ cur' = NoCur /\ UNCHANGED <<fsvars, hist, published, nextsid, ops>>

Next == (\E v \in Rel : PublishStart(v)) \/ PubCreate \/ PubWrite \/ PubRename
        \/ (\E r \in Rel, n \in 0..MaxStates : TrainStart(r, n)) \/ StageCreate \/ StageWrite \/ Put \/ Move
        \/ TagCreate \/ TagWrite \/ TagRename \/ Crash
Spec == Init /\ [][Next]_vars

\* ---------- requirement ----------
\* a listed item is complete: package fully written; tag readable and every state it lists present in the generation
Consistent == /\ \A r \in ListedRel : pkg[r] = "full"
              /\ \A r \in Rel : \A g \in ListedGen(r) : tag[r][g] = "full" /\ \A k \in 1..Len(tagval[r][g]) : tagval[r][g][k] \in gstates[r][g]
\* the reader's view IS the committed history: gap-free numbering, exactly that run's states in order
ViewIsHistory == /\ ListedRel = published
                 /\ \A r \in Rel : ListedGen(r) = 1..Len(hist[r]) /\ \A g \in ListedGen(r) : tagval[r][g] = hist[r][g]
\* append-only: committed generations never change, releases are only added in increasing version order
AppendOnly == [][/\ \A r \in Rel : Len(hist'[r]) >= Len(hist[r]) /\ \A g \in 1..Len(hist[r]) : hist'[r][g] = hist[r][g]
                 /\ published \subseteq published'
                 /\ \A v \in published' \ published : \A u \in published : v > u]_vars
OneAtATime == [][\A r \in Rel : Len(hist'[r]) <= Len(hist[r]) + 1]_vars
=============================================================================
