----------------------------- MODULE TraceKeys -----------------------------
(* code -> spec: observations of real release level listings over RANDOM PEP 440 versions (beyond   *)
(* the lattice of Keys.tla) are judged by the requirement-level order `Less` / `Eq` of Keys.tla:   *)
(* an observation = the abstract versions whose spellings were used as sub-directory names, the     *)
(* listing the real code returned (as indices into those versions) and the key it calls latest.     *)
EXTENDS Keys, IOUtils, TLCExt
Batch == JsonDeserialize(IOEnv.TRACE_FILE)
VARIABLES tid
tvars == <<dirs, listing, put, form, tid>>
Obs == Batch.obs[tid]
Vs == Obs.vers
L == Obs.listing
StrictlyAscending == \A i, j \in 1..Len(L) : i < j => Less(Vs[L[i]], Vs[L[j]])      \* sorted and duplicate-free
Complete == \A k \in 1..Len(Vs) : \E i \in 1..Len(L) : Eq(Vs[L[i]], Vs[k])         \* nothing valid is dropped
LatestMax == IF Len(Vs) = 0 THEN Obs.latest = 0
             ELSE Obs.latest \in 1..Len(Vs) /\ \A k \in 1..Len(Vs) : ~Less(Vs[Obs.latest], Vs[k])
\* the sort-key formulation agrees with the prose formulation on every observed pair as well (a model self-check)
Agree == \A a, b \in 1..Len(Vs) : Less(Vs[a], Vs[b]) <=> KeyLess(Vs[a], Vs[b])
Good == StrictlyAscending /\ Complete /\ LatestMax
TInit == tid \in 1..Len(Batch.obs) /\ dirs = {} /\ listing = <<>> /\ put = 0 /\ form = "key"
TNext == UNCHANGED tvars
TSpec == TInit /\ [][TNext]_tvars
Judge == TLCSet(tid, IF ~Agree THEN 2 ELSE IF Good THEN 1 ELSE 0)      \* 2 = the model disagrees with itself
ASSUME \A i \in 1..Len(Batch.obs) : TLCSet(i, 0 - 1)
Post == \A i \in 1..Len(Batch.obs) : PrintT(<<"VERDICT", i, TLCGet(i)>>)
=============================================================================
