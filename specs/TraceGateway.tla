--------------------------- MODULE TraceGateway ---------------------------
(***************************************************************************)
(* code -> spec: event logs of the REAL REST gateway (harness/gateway.py:   *)
(* Starlette application, Apply route, runtime Engine, dispatch, executor,  *)
(* forked workers) validated against the operators of Gateway.tla.          *)
(* One run = one gateway life = [apps, reqs, events]; every event must be   *)
(* an enabled step of Gateway.tla for the request it names:                 *)
(*   send r                       Send(r)                                   *)
(*   call r app enc accept bodyok Handle(r): the handler got DerivedQ(q)    *)
(*   ret  r kind enc inst rids stamp  Return(r): outcome \in OutcomesQ      *)
(*   resp r status mtype inst rids stamp   Respond(r): = ResponseOf(outcome)*)
(* A run is accepted when every event is explained and every request ends   *)
(* answered.                                                                *)
(***************************************************************************)
EXTENDS Integers, Sequences, FiniteSets, TLC, Json, IOUtils, TLCExt
Batch == JsonDeserialize(IOEnv.TRACE_FILE)
VARIABLES tid, l, phase, call, outcome
vars == <<tid, l, phase, call, outcome>>

G == INSTANCE Gateway WITH Reqs <- <<>>, Apps <- <<>>, resp <- <<>>
None == G!None
Run == Batch.runs[tid]
SetOf(seq) == {seq[i] : i \in 1..Len(seq)}
Rng(j) == [t |-> j.t, s |-> j.s, opts |-> SetOf(j.opts), q |-> j.q]
EncA(j) == IF j.t = "" THEN None ELSE [t |-> j.t, s |-> j.s, opts |-> SetOf(j.opts)]
Hdr(js) == [i \in 1..Len(js) |-> Rng(js[i])]
AppsOf(run) == [n \in {run.apps[i].name : i \in 1..Len(run.apps)} |->
                  LET a == CHOOSE a \in SetOf(run.apps) : a.name = n IN [inst |-> a.inst, stamp |-> a.stamp]]
Q(r) == LET j == Run.reqs[r] IN [app |-> j.app, ctype |-> Hdr(j.ctype), accept |-> Hdr(j.accept), body |-> j.body, fault |-> j.fault]
N == Len(Run.reqs)
E == Run.events[l]
Idx(rid) == IF \E r \in 1..N : Run.reqs[r].body = rid THEN CHOOSE r \in 1..N : Run.reqs[r].body = rid ELSE 0

Init == /\ tid \in 1..Len(Batch.runs)
        /\ l = 1
        /\ phase = [r \in 1..Len(Batch.runs[tid].reqs) |-> "new"]
        /\ call = [r \in 1..Len(Batch.runs[tid].reqs) |-> None]
        /\ outcome = [r \in 1..Len(Batch.runs[tid].reqs) |-> None]
IsEvent(name) == l <= Len(Run.events) /\ E.ev = name /\ Idx(E.r) # 0 /\ l' = l + 1 /\ UNCHANGED tid
Send == /\ IsEvent("send")
        /\ LET r == Idx(E.r) IN phase[r] = "new" /\ phase' = [phase EXCEPT ![r] = "sent"]
        /\ UNCHANGED <<call, outcome>>
Call == /\ IsEvent("call")
        /\ LET r == Idx(E.r)
               c == G!DerivedQ(Q(r))
           IN /\ phase[r] = "sent"
              /\ E.bodyok
              /\ E.app = c.app
              /\ EncA(E.enc) = c.enc
              /\ [i \in 1..Len(E.accept) |-> EncA(E.accept[i])] = c.accept
              /\ phase' = [phase EXCEPT ![r] = "handling"]
              /\ call' = [call EXCEPT ![r] = c]
        /\ UNCHANGED outcome
Observed(e) == IF e.kind = "ok"
               THEN [kind |-> "ok", enc |-> EncA(e.enc), inst |-> e.inst,
                     data |-> IF Len(e.rids) = 1 THEN <<e.rids[1], e.stamp>> ELSE <<-1, e.stamp>>]
               ELSE [kind |-> e.kind, enc |-> None, inst |-> None, data |-> None]
Ret == /\ IsEvent("ret")
       /\ LET r == Idx(E.r) IN
            /\ phase[r] = "handling"
            /\ Observed(E) \in G!OutcomesQ(Q(r), call[r], AppsOf(Run))
            /\ phase' = [phase EXCEPT ![r] = "returned"]
            /\ outcome' = [outcome EXCEPT ![r] = Observed(E)]
       /\ UNCHANGED call
\* the framework may add parameters (charset) to the media type; kind and the encoder's own options must be there
SameType(want, got) == got # None /\ got.t = want.t /\ got.s = want.s /\ want.opts \subseteq got.opts
Resp == /\ IsEvent("resp")
        /\ LET r == Idx(E.r)
               want == G!ResponseOf(outcome[r])
           IN /\ phase[r] = "returned"
              /\ E.status = want.status
              /\ want.status = 200 => /\ SameType(want.mtype, EncA(E.mtype))
                                      /\ E.inst = want.inst
                                      /\ Len(E.rids) = 1 /\ <<E.rids[1], E.stamp>> = want.data
              /\ phase' = [phase EXCEPT ![r] = "answered"]
        /\ UNCHANGED <<call, outcome>>
Next == Send \/ Call \/ Ret \/ Resp
Spec == Init /\ [][Next]_vars
Complete == (l = Len(Run.events) + 1 /\ \A r \in 1..N : phase[r] = "answered")
Track == TLCSet(tid, IF TLCGet(tid)[1] < l THEN <<l, IF Complete THEN 1 ELSE 0>> ELSE TLCGet(tid))
ASSUME \A i \in 1..Len(Batch.runs) : TLCSet(i, <<0, 0>>)
Post == \A i \in 1..Len(Batch.runs) :
           PrintT(<<"VERDICT", i, TLCGet(i)[1] - 1, Len(Batch.runs[i].events), TLCGet(i)[2]>>)
=============================================================================
