--------------------------- MODULE MatchEntryImpl ---------------------------
(***************************************************************************)
(* C15 (implementation level): forml/io/_input/_producer.py transcribed.   *)
(*                                                                          *)
(*   Reader._match_entry   zip_longest scan of (query names, entry names)   *)
(*                         filling `source[name] = index`, the `identical`  *)
(*                         flag, then the index list in query order         *)
(*   Reader.__call__       refuse when incomplete, take_columns(indices)    *)
(*   Reader._cast          zip(expected, actual, data.to_columns())         *)
(*                                                                          *)
(* CastRule = "asis"    - `actual` is the entry schema in ENTRY order while *)
(*                         the data is already in QUERY order (the code)    *)
(*            "aligned" - the kind consulted for column j is the kind of    *)
(*                         the entry column the data of column j came from *)
(* TLC checks Impl => Entry!Aligned clause by clause.                       *)
(***************************************************************************)
EXTENDS Entry, Json
CONSTANT CastRule, ExportOn

None == 0
Absent == -1
Max2(a, b) == IF a >= b THEN a ELSE b
Min2(a, b) == IF a <= b THEN a ELSE b

\* -> [complete, identical, idx]   idx: 0-based entry positions in query order (<<>> stands for None)
MatchEntry(Q, E) ==
    LET n == Max2(Len(Q), Len(E))
        DemandAt(i) == IF i <= Len(Q) THEN Q[i].name ELSE None
        SupplyAt(i) == IF i <= Len(E) THEN E[i].name ELSE None
        Keys == Names(Q) \cup Names(E) \cup {None}
        RECURSIVE Scan(_, _, _)
        Scan(i, source, identical) ==
            IF i > n THEN [aborted |-> FALSE, source |-> source, identical |-> identical]
            ELSE LET filled == [source EXCEPT ![SupplyAt(i)] = i - 1] IN      \* source[supply] = index (last one wins)
                 IF SupplyAt(i) = None /\ filled[DemandAt(i)] = Absent           \* not supply and demand not in source
                 THEN [aborted |-> TRUE, source |-> filled, identical |-> identical]
                 ELSE Scan(i + 1, filled, identical /\ SupplyAt(i) = DemandAt(i))
        scan == Scan(1, [k \in Keys |-> Absent], TRUE)
    IN  IF scan.aborted THEN [complete |-> FALSE, identical |-> FALSE, idx |-> <<>>]
        ELSE IF scan.identical THEN [complete |-> TRUE, identical |-> TRUE, idx |-> <<>>]
        ELSE IF \E j \in DOMAIN Q : scan.source[Q[j].name] = Absent        \* column not in source
             THEN [complete |-> FALSE, identical |-> FALSE, idx |-> <<>>]
             ELSE [complete |-> TRUE, identical |-> FALSE, idx |-> [j \in DOMAIN Q |-> scan.source[Q[j].name]]]

\* Reader.__call__(statement, entry) with the rule of _cast as a parameter
Call(Q, E, D, rule) ==
    LET m == MatchEntry(Q, E) IN
    IF ~m.complete THEN Refused                                            \* MissingError
    ELSE LET \* entry position (1-based) of the data column j after `take_columns(indices) if indices else entry.data`
             origin == IF m.idx # <<>> THEN [j \in DOMAIN m.idx |-> m.idx[j] + 1] ELSE [c \in DOMAIN E |-> c]
             same == Len(E) = Len(Q) /\ \A i \in DOMAIN Q : E[i] = Q[i]    \* actual == expected
             width == Min2(Min2(Len(Q), Len(E)), Len(origin))                 \* zip() stops at the shortest
             ActualKind(j) == IF rule = "asis" THEN E[j].kind ELSE E[origin[j]].kind
             NeedsCast(j) == ~Match(Q[j].kind, ActualKind(j))
         IN  IF same THEN Result("ok", [r \in DOMAIN D |-> [c \in DOMAIN E |-> Den(D[r][c])]])
             ELSE IF \E j \in 1..width : NeedsCast(j) /\ \E r \in DOMAIN D : ~Castable(D[r][origin[j]], Q[j].kind)
                  THEN Refused                                             \* CastError
                  ELSE Result("ok", [r \in DOMAIN D |-> [j \in 1..width |->
                           IF NeedsCast(j) THEN Den(Cast(D[r][origin[j]], Q[j].kind)) ELSE Den(D[r][origin[j]])]])

ServeImpl == /\ phase = "filled"
             /\ ServeWith(Call(q, e, d, CastRule))
ImplNext == Build \/ ServeImpl
ImplSpec == Init /\ [][ImplNext]_vars

\* the index list itself (when one is produced) points at equally named columns, in query order
IndicesAligned == phase = "filled" =>
    LET m == MatchEntry(q, e) IN
        /\ m.complete <=> Complete(q, e)
        /\ (m.complete /\ m.idx # <<>>) => /\ Len(m.idx) = Len(q)
                                           /\ \A j \in DOMAIN q : e[m.idx[j] + 1].name = q[j].name
        /\ (m.complete /\ m.idx = <<>>) => /\ Len(e) = Len(q)
                                           /\ \A j \in DOMAIN q : e[j].name = q[j].name
\* inputs on which the as-is rule departs from the requirement (= the input class of the known finding)
MiscastClass(Q, E, D) == ~Aligned(Q, E, D, Call(Q, E, D, "asis"))

\* one vector per served arrangement: input, every allowed outcome, the outcome the as-is model predicts
Tup(v) == <<v.t, v.s, v.n>>
TupRows(rows) == [r \in DOMAIN rows |-> [c \in DOMAIN rows[r] |-> Tup(rows[r][c])]]
TupOut(o) == [res |-> o.res, rows |-> TupRows(o.rows)]
VectorOf(Q, E, D) == [q |-> [j \in DOMAIN Q |-> <<Q[j].name, Q[j].kind>>],
                      e |-> [c \in DOMAIN E |-> <<E[c].name, E[c].kind>>],
                      d |-> TupRows(D),
                      allowed |-> {TupOut(o) : o \in Allowed(Q, E, D)},
                      asis |-> TupOut(Call(Q, E, D, "asis")),
                      inclass |-> MiscastClass(Q, E, D)]
Vector == VectorOf(q, e, d)
Export == (ExportOn /\ Served) => PrintT(ToJson(Vector))
=============================================================================
