SPECIFICATION Spec
CONSTANTS NW = 2
 MaxGen = 2
INVARIANT NoLostCommit
INVARIANT OnePerNumber
CHECK_DEADLOCK FALSE
