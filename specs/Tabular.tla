------------------------------ MODULE Tabular ------------------------------
(***************************************************************************)
(* C15 (tabular views).  A layout.Tabular is a matrix; the operations of   *)
(* both implementations (Dense, Frame) and of the label Slicer have plain  *)
(* matrix semantics:                                                        *)
(*                                                                          *)
(*   to_rows()[r][c] = to_columns()[c][r] = cell (r, c)                     *)
(*   take_rows(ix)    = the rows    ix[1], ix[2], ... (any list: repeats,   *)
(*   take_columns(ix) = the columns ix[1], ix[2], ...  any order, empty)    *)
(*   Slicer(fx, lx)   = (take_columns(fx) as rows, take_columns(lx) as rows *)
(*                       or, for a scalar lx, the column lx as a vector)    *)
(*                                                                          *)
(* Behaviours: every sequence of at most Depth selections with index lists  *)
(* of length <= MaxTake over an NR0 x NC0 matrix of pairwise distinct       *)
(* cells, each optionally followed by one Slicer application.  Every state  *)
(* is exported and replayed on the real classes.                            *)
(***************************************************************************)
EXTENDS Integers, Sequences, FiniteSets, TLC, Json

CONSTANTS NR0, NC0, MaxTake, MaxSlice, Depth, SliceDepth

VARIABLES m,        \* the table: [nc, rows]  (nc kept explicitly: a table without rows still has columns)
          rsrc,     \* provenance: original row of each current row
          csrc,     \* provenance: original column of each current column
          hist,     \* the calls made so far
          sliced    \* result of the Slicer application, if any
vars == <<m, rsrc, csrc, hist, sliced>>

Cell(i, j) == 10 * i + j
Mat(nc, rows) == [nc |-> nc, rows |-> rows]
Rows(M) == M.rows
Columns(M) == [c \in 1..M.nc |-> [r \in DOMAIN M.rows |-> M.rows[r][c]]]
TakeRowsOf(M, ix) == Mat(M.nc, [k \in DOMAIN ix |-> M.rows[ix[k]]])
TakeColumnsOf(M, ix) == Mat(Len(ix), [r \in DOMAIN M.rows |-> [k \in DOMAIN ix |-> M.rows[r][ix[k]]]])
IndexLists(n, maxlen) == UNION {[1..l -> 1..n] : l \in 0..maxlen}

Call(op, ix, lx, l) == [op |-> op, ix |-> ix, lx |-> lx, l |-> l]
NoSlice == [done |-> FALSE, features |-> <<>>, labels |-> <<>>, label |-> <<>>]

Init == /\ m = Mat(NC0, [i \in 1..NR0 |-> [j \in 1..NC0 |-> Cell(i, j)]])
        /\ rsrc = [i \in 1..NR0 |-> i] /\ csrc = [j \in 1..NC0 |-> j]
        /\ hist = <<>> /\ sliced = NoSlice

Selecting == ~sliced.done /\ Len(hist) < Depth
TakeRows(ix) == /\ Selecting
                /\ m' = TakeRowsOf(m, ix)
                /\ rsrc' = [k \in DOMAIN ix |-> rsrc[ix[k]]]
                /\ hist' = Append(hist, Call("take_rows", ix, <<>>, 0))
                /\ UNCHANGED <<csrc, sliced>>
TakeColumns(ix) == /\ Selecting
                   /\ m' = TakeColumnsOf(m, ix)
                   /\ csrc' = [k \in DOMAIN ix |-> csrc[ix[k]]]
                   /\ hist' = Append(hist, Call("take_columns", ix, <<>>, 0))
                   /\ UNCHANGED <<rsrc, sliced>>
\* Slicer with a sequence of label columns
SliceVector(fx, lx) == /\ ~sliced.done /\ Len(hist) <= SliceDepth
                       /\ sliced' = [done |-> TRUE, features |-> Rows(TakeColumnsOf(m, fx)),
                                     labels |-> Rows(TakeColumnsOf(m, lx)), label |-> <<>>]
                       /\ hist' = Append(hist, Call("slice", fx, lx, 0))
                       /\ UNCHANGED <<m, rsrc, csrc>>
\* Slicer with a single (scalar) label column
SliceScalar(fx, l) == /\ ~sliced.done /\ Len(hist) <= SliceDepth
                      /\ sliced' = [done |-> TRUE, features |-> Rows(TakeColumnsOf(m, fx)),
                                    labels |-> <<>>, label |-> Columns(m)[l]]
                      /\ hist' = Append(hist, Call("slice1", fx, <<>>, l))
                      /\ UNCHANGED <<m, rsrc, csrc>>
AnyTakeRows == \E ix \in IndexLists(Len(m.rows), MaxTake) : TakeRows(ix)
AnyTakeColumns == \E ix \in IndexLists(m.nc, MaxTake) : TakeColumns(ix)
AnySliceVector == \E fx \in IndexLists(m.nc, MaxSlice) : \E lx \in IndexLists(m.nc, MaxSlice) : SliceVector(fx, lx)
AnySliceScalar == \E fx \in IndexLists(m.nc, MaxSlice) : \E l \in 1..m.nc : SliceScalar(fx, l)
Next == AnyTakeRows \/ AnyTakeColumns \/ AnySliceVector \/ AnySliceScalar
Spec == Init /\ [][Next]_vars

(******************************* clauses ************************************)
Rectangular == \A r \in DOMAIN m.rows : Len(m.rows[r]) = m.nc
Transposed == /\ Len(Columns(m)) = m.nc
              /\ \A c \in 1..m.nc : /\ Len(Columns(m)[c]) = Len(Rows(m))
                                    /\ \A r \in DOMAIN m.rows : Columns(m)[c][r] = Rows(m)[r][c]
\* whatever the sequence of selections, cell (r, c) is the original cell (rsrc[r], csrc[c])
Provenance == /\ Len(rsrc) = Len(m.rows) /\ Len(csrc) = m.nc
              /\ \A r \in DOMAIN m.rows : \A c \in 1..m.nc : m.rows[r][c] = Cell(rsrc[r], csrc[c])
SlicerSplits == sliced.done =>
    LET call == hist[Len(hist)] IN
        /\ Len(sliced.features) = Len(m.rows)
        /\ \A r \in DOMAIN m.rows : sliced.features[r] = [k \in DOMAIN call.ix |-> Cell(rsrc[r], csrc[call.ix[k]])]
        /\ call.op = "slice" => \A r \in DOMAIN m.rows : sliced.labels[r] = [k \in DOMAIN call.lx |-> Cell(rsrc[r], csrc[call.lx[k]])]
        /\ call.op = "slice1" => sliced.label = [r \in DOMAIN m.rows |-> Cell(rsrc[r], csrc[call.l])]

Export == PrintT(ToJson([hist |-> hist, nc |-> m.nc, rows |-> Rows(m), cols |-> Columns(m), sliced |-> sliced]))
=============================================================================
