--------------------------- MODULE TraceTagCodec ---------------------------
(* Validates sessions recorded from the real forml Tag / Release.put / Generation.tag   *)
(* (code -> spec): every recorded event must be a step of TagCodec.tla whose observed   *)
(* result is one of the results the requirement allows; "load" events must return what  *)
(* the requirement-level codec reads back from what was dumped.                         *)
EXTENDS TagCodec, IOUtils, TLCExt
Batch == JsonDeserialize(IOEnv.TRACE_FILE)
VARIABLES tid, l
tvars == <<tag, phase, doc, gen, hist, tid, l>>
Tr == Batch.traces[tid]
E == Tr[l]
TInit == tid \in 1..Len(Batch.traces) /\ l = 1 /\ Init
Match == /\ l <= Len(Tr)
         /\ CASE E.op = "train_trigger" -> TrainTrigger(E.a.ts)
              [] E.op = "tune_trigger" -> TuneTrigger(E.a.ts)
              [] E.op = "replace_ordinal" -> ReplaceOrdinal(E.a.ord)
              [] E.op = "replace_score" -> ReplaceScore(E.a.sc)
              [] E.op = "replace_states" -> ReplaceStates(E.a.st)
              [] E.op = "dump" -> DumpTag
              [] E.op = "load" -> LoadTag
              [] OTHER -> FALSE
         /\ tag' = E.res                   \* the observation is the (an allowed) result of the step
         /\ l' = l + 1 /\ UNCHANGED tid
TSpec == TInit /\ [][Match]_tvars
Track == TLCSet(tid, IF TLCGet(tid) < l THEN l ELSE TLCGet(tid))
ASSUME \A i \in 1..Len(Batch.traces) : TLCSet(i, 0)
Post == \A i \in 1..Len(Batch.traces) : PrintT(<<"VERDICT", i, TLCGet(i) - 1, Len(Batch.traces[i])>>)
=============================================================================
