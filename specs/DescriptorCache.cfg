SPECIFICATION Spec
CONSTANTS Threads = {1, 2, 3}
 Inventory = {"app", "other"}
 Wanted <- W3
 Variant = "known"
INVARIANT ValidNeverMissing
INVARIANT UnknownNeverServed
CHECK_DEADLOCK FALSE
