-------------------------- MODULE TraceStatements --------------------------
(***************************************************************************)
(* C07, code -> spec.  Validates observations recorded from the real DSL:  *)
(* each observation is (ast, res, schema) where ast is the generator's     *)
(* statement (conforming, or with one documented rule violated at one      *)
(* position), res \in {"ok", "grammar", "error:<Type>"} is what building   *)
(* it through the public DSL API did, and schema is the [[name, kind]...]  *)
(* read from the built statement's .schema ("!<Type>" when reading it      *)
(* raised).  TLC decides:                                                  *)
(*     res = "ok"  <=>  WellFormed(ast),  otherwise res = "grammar"        *)
(*     res = "ok"   =>  schema lists SchemaOf(ast) (names where the        *)
(*                      feature has one, kinds everywhere, in order)       *)
(***************************************************************************)
EXTENDS DslAst, Json, IOUtils, TLCExt
Batch == JsonDeserialize(IOEnv.TRACE_FILE)
N == Len(Batch.obs)
VARIABLES tid
vars == <<tid>>
Obs == Batch.obs[tid]

SchemaMatches(exp, got) ==
    /\ Len(exp) = Len(got)
    /\ \A i \in DOMAIN exp : exp[i].kind = got[i][2] /\ (exp[i].name = "" \/ exp[i].name = got[i][1])

Broken == BrokenIn(Obs.ast)
VerdictOk == IF Broken = {} THEN Obs.res = "ok" ELSE Obs.res = "grammar"
SchemaOk == (Broken = {} /\ Obs.res = "ok") => (Obs.schema_res = "ok" /\ SchemaMatches(SchemaOf(Obs.ast), Obs.schema))
B(x) == IF x THEN 1 ELSE 0

Init == tid \in 1..N
Next == UNCHANGED vars
Spec == Init /\ [][Next]_vars
\* as-is model (known finding "duplicate output names"): is the observed schema the collapsed one?
AsIs == Broken = {} /\ Obs.res = "ok" /\ Obs.schema_res = "ok" /\ SchemaMatches(Collapse(SchemaOf(Obs.ast)), Obs.schema)
Judge == TLCSet(tid, <<B(Broken = {}), B(VerdictOk), B(SchemaOk), SetToSeq(Broken), B(AsIs)>>)
ASSUME \A i \in 1..N : TLCSet(i, <<>>)
Post == \A i \in 1..N : PrintT(<<"VERDICT", i>> \o TLCGet(i))
=============================================================================
