SPECIFICATION TSpec
CONSTANTS MaxN = 12
 MaxOut = 3
 MaxIn = 3
 Orders = "none"
INVARIANT Verdict
CHECK_DEADLOCK FALSE
