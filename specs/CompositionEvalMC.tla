-------------------------- MODULE CompositionEvalMC --------------------------
(* C12 - cross-validated evaluation and stacking never leak held-out data.    *)
(* Universe: pipelines P followed by a train-test evaluation (hold-out or     *)
(* k-fold cross-validation), and stacked ensembles of 1..3 base learners over *)
(* 2..MaxK folds with and without a preceding pipeline.  Per expression TLC   *)
(* checks the leak-freedom lemmas on the denotation and exports the value the *)
(* real composition must produce.                                             *)
EXTENDS Composition
CONSTANTS MaxK, NChunks, Rich
VARIABLES e, chunk
StatefulFirst == {E("mapper", TRUE, 0, <<>>), E("mapper", FALSE, 0, <<>>), E("apply", TRUE, 0, <<>>)}
Pipes(z) == Leaf \cup MapReduces \cup (IF Rich THEN Seqs(Leaf, Leaf) ELSE Seqs(StatefulFirst, StatefulFirst))
Evals(z) == {E("holdout", FALSE, 1, <<>>)} \cup {E("crossval", FALSE, k, <<>>) : k \in 2..MaxK}
EvalExprs(z) == Seqs(Pipes(z), Evals(z))
BaseSets(z) == [1..1 -> StatefulFirst] \cup [1..2 -> StatefulFirst] \cup (IF Rich THEN [1..3 -> StatefulFirst] ELSE {})
StackOps(z) == {E("stack", FALSE, k, bs) : k \in 2..MaxK, bs \in BaseSets(z)}
StackExprs(z) == StackOps(z) \cup Seqs(Leaf, StackOps(z))
Universe(z) == EvalExprs(z) \cup StackExprs(z)

OpCode(o) == CASE o = "seq" -> 1 [] o = "mapper" -> 2 [] o = "apply" -> 3 [] o = "train" -> 4 [] o = "label" -> 5
               [] o = "dump" -> 6 [] o = "mapreduce" -> 7 [] o = "twice" -> 8 [] o = "stack" -> 9 [] o = "holdout" -> 10 [] OTHER -> 12
RECURSIVE Hsh(_)
Hsh(x) == LET RECURSIVE Kids(_) Kids(i) == IF i > Len(x.kids) THEN 0 ELSE (7 * i + 1) * Hsh(x.kids[i]) + Kids(i + 1)
          IN (OpCode(x.op) + (IF x.sf THEN 11 ELSE 0) + 3 * x.k + Kids(1)) % 9973
None == E("none", FALSE, 0, <<>>)
Init == chunk \in 0..(NChunks - 1) /\ e = None
Pick == e = None /\ e' \in {u \in Universe(chunk) : Hsh(u) % NChunks = chunk} /\ UNCHANGED chunk
Next == Pick
Spec == Init /\ [][Next]_<<e, chunk>>

IsEval(x) == x.op = "seq" /\ x.kids[2].op \in {"holdout", "crossval"}
\* leak-freedom lemmas on the denotation of an evaluated pipeline Seq(P, ev) (P at position 11, ev at position 12)
EvalLeakFree(x) ==
    LET F == Expand(x.kids[1], 11)
        ev == x.kids[2]
        split == 125
        nf == IF ev.op = "holdout" THEN 1 ELSE ev.k
        pred(i) == Sub(F.a, Env(Xte(split, i), Xtr(split, i), Ytr(split, i)))
    IN \A i \in 0..(nf - 1) :
         /\ FoldClean(pred(i), split, i)                               \* models trained on the train part of fold i only
         /\ \A o \in OutIdx(pred(i)) : o \in {2 * i + 1, 2 * i + 2}      \* nothing of another fold anywhere
\* stacked ensembles: every stacked prediction of fold i is fold clean, every fold contributes exactly once per base
StackOf(x) == IF x.op = "stack" THEN x ELSE x.kids[2]
StackPos(x) == IF x.op = "stack" THEN 1 ELSE 12
StackScope(x) == IF x.op = "stack" THEN Origin ELSE Expand(x.kids[1], 11)
StackLeakFree(x) ==
    LET st == StackOf(x)  pos == StackPos(x)  F == StackScope(x)
        split == 10 * pos + 5
        G == Compose(st, pos, F)
        stacked(j) == G.t.args[j + 1]                                   \* App(stacker, Nil, pte(j, 0..k-1))
    IN /\ \A j \in DOMAIN st.kids : Len(stacked(j).args) = st.k + 1
       /\ \A j \in DOMAIN st.kids : \A i \in 0..(st.k - 1) : FoldClean(stacked(j).args[i + 2], split, i)
       /\ Len(G.l.args) = st.k + 1 /\ \A i \in 0..(st.k - 1) : G.l.args[i + 2] = Yte(split, i)
Check == e = None \/
         (IF IsEval(e)
          THEN EvalLeakFree(e) /\ PrintT(ToJson([e |-> e, kind |-> "eval", train |-> ClosedEval(e).t, apply |-> Nil]))
          ELSE StackLeakFree(e) /\ LET C == Closed(e) IN PrintT(ToJson([e |-> e, kind |-> "stack", train |-> C.t, apply |-> C.a])))
=============================================================================
