------------------------------- MODULE Latest -------------------------------
(***************************************************************************)
(* C17 (latest / explicit part).  A registry history (releases published   *)
(* in increasing version order, generations committed to any published     *)
(* release) interleaved with serving requests and refresh passes.          *)
(*                                                                         *)
(* Requirement: a request is answered with the newest generation of the    *)
(* highest release having one (or of the configured release) as of some    *)
(* moment since the last refresh pass (`seen`); in particular right after  *)
(* a refresh pass it is the newest one.  Implementation level: the answer  *)
(* is exactly the cached instance (`cache`).                               *)
(***************************************************************************)
EXTENDS Integers, Sequences, FiniteSets, TLC, Json
CONSTANTS NR,          \* releases 1..NR (key order = numeric order)
          MaxGen,      \* generations per release 0..MaxGen
          Configured,  \* 0 = follow the highest release, r = pinned release
          Depth
VARIABLES pub, gens, cache, seen, hist
vars == <<pub, gens, cache, seen, hist>>
Rel == 1..NR
None == <<0, 0>>
Max(S) == CHOOSE x \in S : \A y \in S : y <= x
NewestOf(p, g) ==
    IF Configured # 0 THEN (IF Configured \in p /\ g[Configured] > 0 THEN <<Configured, g[Configured]>> ELSE None)
    ELSE LET rs == {r \in p : g[r] > 0} IN IF rs = {} THEN None ELSE <<Max(rs), g[Max(rs)]>>
Newest == NewestOf(pub, gens)
Ev(op, r, res) == [op |-> op, r |-> r, res |-> res, allowed |-> <<>>]

SetToSeq(S) == LET RECURSIVE F(_) F(T) == IF T = {} THEN <<>> ELSE LET x == CHOOSE y \in T : TRUE IN <<x>> \o F(T \ {x}) IN F(S)

Init == pub = {} /\ gens = [r \in Rel |-> 0] /\ cache = None /\ seen = {} /\ hist = <<>>

Publish(r) == /\ r \notin pub /\ \A q \in pub : q < r
              /\ pub' = pub \cup {r}
              /\ seen' = IF cache = None THEN seen ELSE seen \cup {NewestOf(pub', gens)}
              /\ hist' = Append(hist, Ev("publish", r, None))
              /\ UNCHANGED <<gens, cache>>
Commit(r) == /\ r \in pub /\ gens[r] < MaxGen
             /\ gens' = [gens EXCEPT ![r] = @ + 1]
             /\ seen' = IF cache = None THEN seen ELSE seen \cup {NewestOf(pub, gens')}
             /\ hist' = Append(hist, Ev("commit", r, None))
             /\ UNCHANGED <<pub, cache>>
\* a request: the first one picks, later ones are served from the cache
Select == /\ Newest # None \/ cache # None              \* otherwise "no models available" (property silent)
          /\ cache' = IF cache = None THEN Newest ELSE cache
          /\ seen' = IF cache = None THEN {Newest} ELSE seen
          /\ hist' = Append(hist, [op |-> "select", r |-> 0, res |-> cache',
                                   allowed |-> SetToSeq(seen')])
          /\ UNCHANGED <<pub, gens>>
\* one pass of the refresher (only runs once the first request has started it)
Tick == /\ cache # None
        /\ cache' = Newest /\ seen' = {Newest}
        /\ hist' = Append(hist, Ev("tick", 0, None))
        /\ UNCHANGED <<pub, gens>>
\* the selector is handed on as a copy of itself (pickled to another process, deep-copied into a descriptor) after it has
\* served: the copy is a selector of the same configuration - at the implementation level it starts cold (no cached pick,
\* its own refresher starts with its first request)
Copy == /\ cache # None
        /\ cache' = None /\ seen' = {}
        /\ hist' = Append(hist, Ev("copy", 0, None))
        /\ UNCHANGED <<pub, gens>>
Next == (\E r \in Rel : Publish(r) \/ Commit(r)) \/ Select \/ Tick \/ Copy
Spec == Init /\ [][Next]_vars

Bound == Len(hist) <= Depth
\* the implementation-level answer satisfies the requirement, and right after a refresh it is the newest
ImplRefines == cache # None => cache \in seen
FreshAfterTick == (hist # <<>> /\ hist[Len(hist)].op = "tick") => cache = Newest
NewestWellFormed == Newest # None => (Newest[1] \in pub /\ Newest[2] = gens[Newest[1]] /\
                        (Configured = 0 => \A r \in pub : r > Newest[1] => gens[r] = 0))
Export == (Len(hist) = Depth /\ \E i \in 1..Len(hist) : hist[i].op = "select") => PrintT(ToJson(hist))
=============================================================================
