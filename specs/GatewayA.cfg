SPECIFICATION Spec
CONSTANTS Reqs <- McReqsA
 Apps <- McApps
INVARIANT OwnAnswer
INVARIANT Refused
INVARIANT MostPreferredContentType
PROPERTY AllAnswered
CHECK_DEADLOCK FALSE
