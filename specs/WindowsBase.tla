---------------------------- MODULE WindowsBase ----------------------------
(***************************************************************************)
(* C10.  Constant-level part shared by Windows.tla (exhaustive model) and  *)
(* TraceWindows.tla (validation of observations recorded from forml).      *)
(*                                                                         *)
(* Ordinals are abstracted to integer positions of an order-preserving     *)
(* encoding; NONE is "bound not given" (that side of the window is open).  *)
(*                                                                         *)
(* Requirement source: docstring of forml.project.Source.query             *)
(*   atleast: include both the lower and the upper ordinal bounds          *)
(*   atmost : leave out the lower bound and include the upper one          *)
(*   exactly: include the lower bound but leave the upper bound out for    *)
(*            the next batch                                               *)
(* and the property statement (tiling clauses, refusal, default lower).    *)
(*                                                                         *)
(* Variant = "doc" is the documented semantic.  The other values are       *)
(* deliberately wrong semantics used once per run to show that the tiling  *)
(* invariants are able to fail (model self-test).                          *)
(***************************************************************************)
EXTENDS Integers
CONSTANT Variant
NONE == -1
Sems == {"exactly", "atmost", "atleast"}

LowerIncl(s) == CASE Variant = "atmost_ge" /\ s = "atmost" -> TRUE
                  [] Variant = "atleast_gt" /\ s = "atleast" -> FALSE
                  [] OTHER -> s \in {"exactly", "atleast"}
UpperIncl(s) == CASE Variant = "exactly_le" /\ s = "exactly" -> TRUE
                  [] Variant = "atleast_lt" /\ s = "atleast" -> FALSE
                  [] OTHER -> s \in {"atmost", "atleast"}

\* is a record with ordinal r delivered by the window (lo, hi) under semantic s
InWindow(s, lo, hi, r) ==
    /\ (lo = NONE \/ (IF LowerIncl(s) THEN r >= lo ELSE r > lo))
    /\ (hi = NONE \/ (IF UpperIncl(s) THEN r <= hi ELSE r < hi))

\* Runner.train: an explicit lower bound wins, otherwise the ordinal of the last training tag (may be NONE)
EffLower(lo, last) == IF lo # NONE THEN lo ELSE last

\* bounds given to a source without an ordinal are refused
Refuse(hasOrdinal, lo, hi) == ~hasOrdinal /\ (lo # NONE \/ hi # NONE)

(* Tiling clauses of the property for ONE record with ordinal r that has   *)
(* been delivered n times by the consecutive windows launched so far:      *)
(* first = lower edge of the first window, front = upper edge of the last  *)
(* one (NONE = open), bounds = set of all edges given.                     *)
Covered(launched, first, front, r) ==        \* closed range of the windows launched so far
    launched /\ (first = NONE \/ r >= first) /\ (front = NONE \/ r <= front)
OnlyBoundsDeviateAt(launched, first, front, bounds, r, n) ==
    r \notin bounds => n = (IF Covered(launched, first, front, r) THEN 1 ELSE 0)
NothingOutsideAt(launched, first, front, r, n) == ~Covered(launched, first, front, r) => n = 0
ExactlyOnceAt(launched, first, front, r, n) ==
    n = (IF launched /\ (first = NONE \/ r >= first) /\ (front = NONE \/ r < front) THEN 1 ELSE 0)
AtMostOnceAt(n) == n <= 1
AtLeastOnceAt(launched, first, front, r, n) == Covered(launched, first, front, r) => n >= 1

RecordOK(s, launched, first, front, bounds, r, n) ==
    /\ OnlyBoundsDeviateAt(launched, first, front, bounds, r, n)
    /\ NothingOutsideAt(launched, first, front, r, n)
    /\ (s = "exactly" => ExactlyOnceAt(launched, first, front, r, n))
    /\ (s = "atmost" => AtMostOnceAt(n))
    /\ (s = "atleast" => AtLeastOnceAt(launched, first, front, r, n))
=============================================================================
