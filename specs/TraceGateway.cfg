SPECIFICATION Spec
CONSTRAINT Track
POSTCONDITION Post
CHECK_DEADLOCK FALSE
