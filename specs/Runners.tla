------------------------------ MODULE Runners ------------------------------
(***************************************************************************)
(* C02 - every runner executes a compiled table with identical results.    *)
(*                                                                         *)
(* Tables are single-source single-sink DAGs of functor instructions:      *)
(* dag[n] = ordered argument nodes of n, node 1 the source, the last node   *)
(* the sink, every node consumed; lab[n] is the label of the actor (two nodes   *)
(* may share a builder).  Requirement: every backend delivers Ref(N).       *)
(*                                                                         *)
(* PyfuncImpl: Expression._order (first-visit DFS pre-order from the tail,  *)
(*   stable sort by longest distance), the provider deques of               *)
(*   Expression.__init__ and the evaluation of the nested term with its     *)
(*   replica queues.  Variant "asis" = forml <= 0bb2ca9 (head never forked, *)
(*   Push assigned in level order / Pop elsewhere), "fixed" = the head is   *)
(*   forked like any node and replicas are symmetric (first evaluated       *)
(*   computes, the others take the copy).                                   *)
(* DaskImpl: a ready-set scheduler over keyed tasks (key = instruction      *)
(*   token + argument keys = the Ref term): any task whose arguments are    *)
(*   done may run, in any order / interleaving; synchronous, threads and    *)
(*   processes are restrictions of it.                                      *)
(***************************************************************************)
EXTENDS Naturals, Sequences, FiniteSets, TLC, Json
CONSTANTS MaxN, MaxArgs, Variant, Shared
VARIABLES dag, lab, done, phase
vars == <<dag, lab, done, phase>>
N == Len(dag)
Nodes == 1..N
ArgSeqs(i) == UNION {[1..k -> 1..(i-1)] : k \in 1..MaxArgs}
Consumed(d, n) == \E m \in 1..Len(d) : \E j \in DOMAIN d[m] : d[m][j] = n
Ident == [n \in Nodes |-> n]
\* optionally two inner nodes share one builder (dask then merges them when their arguments coincide)
Labs == {Ident} \cup (IF Shared THEN {[Ident EXCEPT ![j] = i] : i \in 2..(N-1), j \in 2..(N-1)} ELSE {})
Init == dag = << <<>> >> /\ lab = <<1>> /\ done = {} /\ phase = "gen"
\* generation: append a node fed by 1..MaxArgs earlier nodes; a table is complete when every node but the last is consumed
AddNode == /\ phase = "gen" /\ N < MaxN
           /\ \E args \in ArgSeqs(N + 1) : dag' = Append(dag, args)
           /\ lab' = Append(lab, N + 1) /\ UNCHANGED <<done, phase>>
Finish == /\ phase = "gen" /\ N >= 2 /\ \A n \in 1..(N - 1) : Consumed(dag, n)
          /\ \E l \in Labs : lab' = l
          /\ phase' = "run" /\ UNCHANGED <<dag, done>>

T(tag, id, args) == [tag |-> tag, id |-> id, args |-> args]
\* ---------- reference ----------
RECURSIVE Ref(_)
Ref(n) == IF n = 1 THEN T("app", lab[1], <<>>) ELSE T("app", lab[n], [j \in DOMAIN dag[n] |-> Ref(dag[n][j])])

\* ---------- pyfunc _order ----------
\* level = longest distance from the tail
RECURSIVE Level(_)
Consumers(n) == {m \in Nodes : \E j \in DOMAIN dag[m] : dag[m][j] = n}
Level(n) == IF n = N THEN 0 ELSE LET L == {Level(m) + 1 : m \in Consumers(n)} IN CHOOSE x \in L : \A y \in L : y <= x
\* first-visit DFS preorder from the tail over args left to right
RECURSIVE Pre(_, _), PreList(_, _)
PreList(ns, seen) == IF ns = <<>> THEN seen ELSE PreList(Tail(ns), Pre(Head(ns), seen))
Pre(n, seen) == LET s1 == IF \E i \in DOMAIN seen : seen[i] = n THEN seen ELSE Append(seen, n) IN PreList(dag[n], s1)
PreOrder == Pre(N, <<>>)
\* stable sort by level descending
RECURSIVE InsSorted(_, _)
InsSorted(x, s) == IF s = <<>> THEN <<x>> ELSE IF Level(Head(s)) >= Level(x) THEN <<Head(s)>> \o InsSorted(x, Tail(s)) ELSE <<x>> \o s
RECURSIVE SortAll(_, _)
SortAll(src, acc) == IF src = <<>> THEN acc ELSE SortAll(Tail(src), InsSorted(Head(src), acc))
Order == SortAll(PreOrder, <<>>)

\* ---------- Expression.__init__: provider deques ----------
Uses(n) == LET RECURSIVE C(_) C(m) == IF m > N THEN 0 ELSE Cardinality({j \in DOMAIN dag[m] : dag[m][j] = n}) + C(m + 1) IN C(1)
\* expression terms: [k, n, subs]; k in raw, chain, zip, push, pop ; "ERR" marks construction failure
X(k, n, subs) == [k |-> k, n |-> n, subs |-> subs]
Fork(term, n) == IF Uses(n) > 1
              THEN (IF Variant = "asis" THEN <<X("push", n, <<term>>)>> \o [i \in 1..(Uses(n) - 1) |-> X("pop", n, <<>>)]
                    ELSE [i \in 1..Uses(n) |-> X("rep", n, <<term>>)])
              ELSE <<term>>
\* prov: function node -> sequence of terms ; step over Order[2..]
RECURSIVE Build(_, _, _)
\* returns [prov, err]
PopArgs(args, prov) == \* returns [ok, terms, prov]
   LET RECURSIVE P(_, _, _)
       P(i, acc, pv) == IF i > Len(args) THEN [ok |-> TRUE, terms |-> acc, prov |-> pv]
                        ELSE IF pv[args[i]] = <<>> THEN [ok |-> FALSE, terms |-> acc, prov |-> pv]
                        ELSE P(i + 1, Append(acc, Head(pv[args[i]])), [pv EXCEPT ![args[i]] = Tail(@)])
   IN P(1, <<>>, prov)
Build(i, prov, err) == IF err \/ i > Len(Order) THEN [prov |-> prov, err |-> err]
   ELSE LET n == Order[i] pa == PopArgs(dag[n], prov) IN
        IF ~pa.ok \/ pa.prov[n] = <<>> THEN [prov |-> prov, err |-> TRUE]
        ELSE LET raw == Head(pa.prov[n])
                 term == IF Len(pa.terms) > 1 THEN X("zip", n, pa.terms) ELSE X("chain", n, pa.terms)
                 pv2 == [pa.prov EXCEPT ![n] = Tail(@) \o Fork(term, n)]
             IN Build(i + 1, pv2, FALSE)
Prov0 == [n \in Nodes |-> IF n = Order[1] /\ Variant # "asis" THEN Fork(X("raw", n, <<>>), n) ELSE <<X("raw", n, <<>>)>>]
Built == Build(2, Prov0, Order[1] # 1)
BuildOK == ~Built.err /\ Len(Built.prov[N]) = 1

\* ---------- evaluation machine (functional threading of the queues) ----------
\* returns [v, q, err]; q: function node -> sequence of values
RECURSIVE Ev(_, _)
EvSeq(ts, q) == LET RECURSIVE E(_, _, _)
                    E(i, acc, qq) == IF i > Len(ts) THEN [vs |-> acc, q |-> qq, err |-> FALSE]
                                     ELSE LET r == Ev(ts[i], qq) IN IF r.err THEN [vs |-> acc, q |-> r.q, err |-> TRUE] ELSE E(i + 1, Append(acc, r.v), r.q)
                IN E(1, <<>>, q)
Ev(t, q) == CASE t.k = "raw" -> [v |-> T("app", lab[t.n], <<>>), q |-> q, err |-> FALSE]
              [] t.k \in {"chain", "zip"} -> LET r == EvSeq(t.subs, q) IN [v |-> T("app", lab[t.n], r.vs), q |-> r.q, err |-> r.err]
              [] t.k = "push" -> IF q[t.n] # <<>> THEN [v |-> T("bad", 0, <<>>), q |-> q, err |-> TRUE]
                                 ELSE LET r == Ev(t.subs[1], q) IN
                                      [v |-> r.v, q |-> [r.q EXCEPT ![t.n] = [i \in 1..(Uses(t.n) - 1) |-> r.v]], err |-> r.err]
              [] t.k = "rep" -> IF q[t.n] # <<>> THEN [v |-> Head(q[t.n]), q |-> [q EXCEPT ![t.n] = Tail(@)], err |-> FALSE]
                                ELSE LET r == Ev(t.subs[1], q) IN
                                     [v |-> r.v, q |-> [r.q EXCEPT ![t.n] = [i \in 1..(Uses(t.n) - 1) |-> r.v]], err |-> r.err]
              [] t.k = "pop" -> IF q[t.n] = <<>> THEN [v |-> T("bad", 0, <<>>), q |-> q, err |-> TRUE]
                                ELSE [v |-> Head(q[t.n]), q |-> [q EXCEPT ![t.n] = Tail(@)], err |-> FALSE]
Q0 == [n \in Nodes |-> <<>>]
Run == Ev(Built.prov[N][1], Q0)


\* ---------- DaskImpl: ready-set scheduler over keyed tasks ----------
Key(n) == Ref(n)
Keys == {Key(n) : n \in Nodes}
ArgKeys(k) == LET n == CHOOSE m \in Nodes : Key(m) = k IN {Key(dag[n][j]) : j \in DOMAIN dag[n]}
RunTask(k) == phase = "run" /\ k \notin done /\ ArgKeys(k) \subseteq done /\ done' = done \cup {k} /\ UNCHANGED <<dag, lab, phase>>
RunAny == \E k \in Keys : RunTask(k)
Next == AddNode \/ Finish \/ RunAny
Spec == Init /\ [][Next]_vars
\* a task only ever runs after its arguments and never twice; nothing blocks before every key is done
DaskNoDeadlock == (phase = "run" /\ done # Keys) => \E k \in Keys : k \notin done /\ ArgKeys(k) \subseteq done
DaskCausal == \A k \in done : ArgKeys(k) \subseteq done
\* the value computed for the sink key is the reference value by construction of the key (purity assumption)

\* ---------- requirement on the single-function runner ----------
HeadFanout == Uses(1) > 1
PyfuncVerdict == IF ~BuildOK THEN "build" ELSE IF Run.err THEN "eval" ELSE IF Run.v = Ref(N) /\ \A n \in Nodes : Run.q[n] = <<>> THEN "ok" ELSE "wrong"
PyfuncOK == (phase = "run" /\ done = {}) => PyfuncVerdict = "ok"
Export == (phase = "run" /\ done = {}) => PrintT(ToJson([dag |-> dag, lab |-> lab, ref |-> Ref(N), pyfunc |-> PyfuncVerdict, headfanout |-> HeadFanout]))
=============================================================================
