--------------------------- MODULE FlowGraphCasts ---------------------------
(* Casts for FlowGraph (cfg files cannot hold records / sequences).          *)
EXTENDS FlowGraph
W(zin, zout, grp, sf) == [k |-> "w", zin |-> zin, zout |-> zout, grp |-> grp, sf |-> sf]
F(z) == [k |-> "f", zin |-> z, zout |-> z, grp |-> 0, sf |-> FALSE]
\* stateful worker + fork, stateless worker, placeholder
CastA == <<W(1, 1, 1, TRUE), W(1, 1, 1, TRUE), W(1, 1, 2, FALSE), F(1)>>
\* two placeholders between two workers (chains of placeholders, registration orders)
CastB == <<W(1, 1, 1, FALSE), F(1), F(1), W(1, 1, 2, TRUE)>>
\* multi-port workers
CastC == <<W(1, 2, 1, FALSE), W(2, 1, 2, FALSE), W(1, 1, 3, TRUE), F(1)>>
\* three-member group and a source
CastD == <<W(1, 1, 1, TRUE), W(1, 1, 1, TRUE), W(1, 1, 1, TRUE), W(1, 1, 2, FALSE)>>
\* five nodes: source, stateful pair, two placeholders
CastE == <<W(1, 1, 1, FALSE), W(1, 1, 2, TRUE), W(1, 1, 2, TRUE), F(1), F(1)>>
\* 2:2 placeholder
CastG == <<W(1, 2, 1, FALSE), F(2), W(2, 1, 2, FALSE), W(1, 1, 3, FALSE)>>
=============================================================================
