SPECIFICATION TSpec
CONSTANTS N = 1
 A = 1
 M = 1
 UseModules = FALSE
 MaxGets = 0
 DoExport = FALSE
 StepTables = FALSE
CONSTRAINT Track
INVARIANT SingleClass
INVARIANT AbstractNeverReturned
POSTCONDITION Post
CHECK_DEADLOCK FALSE
