---------------------------- MODULE ImporterImpl ----------------------------
(***************************************************************************)
(* C09, implementation-shaped model (forml 0bb2ca9 and the pinned tree).   *)
(*                                                                         *)
(* io.Importer.Matcher (forml/io/_input/__init__.py): a source visitor     *)
(* carrying the flag _matches.  visit_reference / visit_join / visit_set / *)
(* visit_query descend only "if self and source not in self._sources";     *)
(* visit_table clears the flag when the table is not advertised.           *)
(*                                                                         *)
(* io.Importer.__init__ / match: slots sorted by priority with             *)
(* sorted(..., reverse=True) (stable: equal priorities keep the order in   *)
(* which the feeds were passed), first feed whose Matcher stays truthy.    *)
(*                                                                         *)
(* dsl.parser.Visitor (forml/io/dsl/parser.py): visit_table looks the      *)
(* table up in the sources mapping (UnprovisionedError when absent);       *)
(* visit_join / visit_set / visit_query are wrapped by `bypass`, which     *)
(* runs the wrapped method first - visiting the children - and consults    *)
(* the sources mapping only AFTERWARDS to replace the generated symbol;    *)
(* visit_reference is not wrapped at all.  An UnprovisionedError raised    *)
(* below an advertised join / set / query / reference therefore escapes.   *)
(*                                                                         *)
(* TLC checks the requirement clauses of Importer.tla on the behaviours of *)
(* this model: the selection clauses hold, SelectedParses does not, and    *)
(* the inputs on which the parser model leaves the requirement are exactly *)
(* the class ThroughNonLeafOnly (ParserDivergenceIsClass).                 *)
(***************************************************************************)
EXTENDS Importer

RECURSIVE MVisit(_, _, _, _), MVisitAll(_, _, _, _), PVisit(_, _, _)
\* flag after the Matcher visited source i, entered with flag ok
MVisit(Tr, adv, i, ok) ==
    IF Tr[i].t = "table" THEN ok /\ i \in adv
    ELSE IF ok /\ i \notin adv THEN MVisitAll(Tr, adv, Tr[i].kids, ok)
    ELSE ok
MVisitAll(Tr, adv, ks, ok) == IF ks = <<>> THEN ok ELSE MVisitAll(Tr, adv, Tail(ks), MVisit(Tr, adv, Head(ks), ok))
ImplMatches(Tr, adv, i) == MVisit(Tr, adv, i, TRUE)

\* TRUE iff the parser gets through source i without UnprovisionedError
PVisit(Tr, adv, i) ==
    CASE Tr[i].t = "table" -> i \in adv                                 \* resolve_source
      [] Tr[i].t = "ref" -> PVisit(Tr, adv, Tr[i].kids[1])              \* no bypass on visit_reference
      [] OTHER -> \A k \in DOMAIN Tr[i].kids : PVisit(Tr, adv, Tr[i].kids[k])   \* children first; the override (i \in adv)
                                                                        \* only swaps the symbol afterwards
ImplParses(j) == PVisit(T, pool[j].adv, Root)
ImplOutcome(j) == IF ImplParses(j) THEN "ok" ELSE "UnprovisionedError"

\* position of feed i before feed j in the sorted pool
Before(i, j) == pool[i].prio > pool[j].prio \/ (pool[i].prio = pool[j].prio /\ i < j)
ImplCandidates == {j \in Feeds : ImplMatches(T, pool[j].adv, Root)}
ImplFirst == {j \in ImplCandidates : \A i \in ImplCandidates \ {j} : Before(j, i)}

IMatch(j) == /\ phase = "pool" /\ pool # <<>> /\ j \in ImplFirst
             /\ sel' = j /\ phase' = "matched" /\ UNCHANGED <<sid, pool, parsed>>
IMissing == /\ phase = "pool" /\ pool # <<>> /\ ImplFirst = {}
            /\ sel' = 0 /\ phase' = "missing" /\ UNCHANGED <<sid, pool, parsed>>
IParse(j) == /\ phase \in {"matched", "missing"} /\ j = Len(parsed) + 1 /\ j \in Feeds
             /\ parsed' = Append(parsed, ImplOutcome(j))
             /\ UNCHANGED <<sid, pool, phase, sel>>
IMatchAny == \E j \in Feeds : IMatch(j)
IParseNext == \E j \in Feeds : IParse(j)
ImplNext == RegisterAny \/ IMatchAny \/ IMissing \/ IParseNext
ImplSpec == Init /\ [][ImplNext]_vars

\* every answer of the implementation model is an answer the requirement allows (action property)
AnswerRefines == [][(phase = "pool" /\ phase' # "pool") => ((\E j \in Feeds : Match(j)) \/ Missing)]_vars
\* the Matcher model computes Covers
MatcherIsCovers == \A j \in Feeds : ImplMatches(T, pool[j].adv, Root) <=> FeedCovers(j)
\* the parser model never resolves what is not covered, and fails on covered statements exactly in the triage class
ParserNeverOverResolves == \A j \in Feeds : ImplParses(j) => FeedCovers(j)
ParserDivergenceIsClass == \A j \in Feeds : (ImplParses(j) # Resolvable(T, pool[j].adv, Root))
                                               <=> ThroughNonLeafOnly(T, pool[j].adv, Root)
\* NOT an invariant of this model (the finding): Covers <=> the as-is parser resolves
ImplParserAgrees == \A j \in Feeds : ImplParses(j) <=> FeedCovers(j)

ImplExport == (ExportOn /\ phase = "pool" /\ pool # <<>>) =>
                PrintT(ToJson([s |-> sid, pool |-> [j \in Feeds |-> Shown(pool[j])],
                               isel |-> ImplFirst,
                               im |-> [j \in Feeds |-> ImplMatches(T, pool[j].adv, Root)],
                               ip |-> [j \in Feeds |-> ImplParses(j)]]))
\* pool-level export: the requirement verdicts and the predictions of this model in one record
FullExport == (ExportOn /\ phase = "pool" /\ pool # <<>>) =>
                PrintT(ToJson([s |-> sid, pool |-> [j \in Feeds |-> Shown(pool[j])],
                               best |-> Best,
                               cov |-> [j \in Feeds |-> FeedCovers(j)],
                               cls |-> [j \in Feeds |-> ThroughNonLeafOnly(T, pool[j].adv, Root)],
                               isel |-> ImplFirst,
                               im |-> [j \in Feeds |-> ImplMatches(T, pool[j].adv, Root)],
                               ip |-> [j \in Feeds |-> ImplParses(j)]]))
=============================================================================
