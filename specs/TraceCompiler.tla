--------------------------- MODULE TraceCompiler ---------------------------
(* code -> spec for C01: segments built by a random driver on the real flow   *)
(* API, compiled by the real flow.compile and executed by an independent      *)
(* interpreter; TLC is the reference semantics: the bag of values produced by *)
(* the table's functors must equal the bag {Den(n)}, the committed states     *)
(* must be ExpectedCommit, the loaded offsets exactly the persistent ones.    *)
EXTENDS Compiler, IOUtils, TLCExt
VARIABLE tid
Batch == JsonDeserialize(IOEnv.TRACE_FILE)
Ob == Batch.obs[tid]
Pad(s) == [g \in 1..MaxN |-> IF g <= Len(s) THEN s[g] ELSE FALSE]
TInit == /\ tid \in 1..Len(Batch.obs)
         /\ nodes = Batch.obs[tid].nodes /\ sfgrp = Pad(Batch.obs[tid].sf) /\ pers = Batch.obs[tid].pers
         /\ phase = "trace" /\ visited = {} /\ index = <<>> /\ absl = <<>> /\ prel = <<>> /\ committer = 0 /\ fresh = 1000
TNext == UNCHANGED <<vars, tid>>
TSpec == TInit /\ [][TNext]_<<vars, tid>>
Count(s, x) == Cardinality({i \in 1..Len(s) : s[i] = x})
DenSeq == DenAll
BagEq(a, b) == Len(a) = Len(b) /\ \A i \in 1..Len(a) : Count(a, a[i]) = Count(b, a[i])
TrainMode == \E i \in 1..Len(pers) : TrainedOf(pers[i]) # {}
Conforms == LET den == DenAll IN
            /\ BagEq(Ob.values, den)
            /\ IF TrainMode THEN Ob.commits = << [i \in 1..Len(pers) |-> StateOfV(den, pers[i])] >>
                            ELSE Ob.commits = <<>>
            /\ {Ob.loads[i] : i \in 1..Len(Ob.loads)} = 1..Len(pers) /\ Len(Ob.loads) = Len(pers)
Verdict == PrintT(<<"VERDICT", tid, IF Conforms THEN 1 ELSE 0>>)
=============================================================================
