------------------------------- MODULE DslAst -------------------------------
(***************************************************************************)
(* Abstract syntax of forml DSL statements and the documented grammar      *)
(* rules over it (docs/dsl/query/syntax.rst + property C07).  Shared by    *)
(* Statements.tla / TraceStatements.tla (C07) and TraceIdentity.tla (C08). *)
(*                                                                         *)
(* The value shapes are exactly the JSON encoding of harness/dslgen.py:    *)
(*  source  [t, name, kind, cols, l, r, on, sel, where, group, having,     *)
(*           order, rows]      t \in {"table","ref","join","set","query"}  *)
(*  feature [f, src, name, kind, v, op, args]                              *)
(*                             f \in {"col","lit","alias","op","agg"}      *)
(*  absent sub-terms are NilS / NilF; an order term is [x, dir].           *)
(* Structural identity of two terms is TLA+ equality of these values.      *)
(***************************************************************************)
EXTENDS Integers, Sequences, FiniteSets, TLC

NilF == [f |-> "nil"]
NilS == [t |-> "nil"]
Feat(f, src, name, kind, v, op, args) ==
    [f |-> f, src |-> src, name |-> name, kind |-> kind, v |-> v, op |-> op, args |-> args]
Col(src, name) == Feat("col", src, name, "", "", "", <<>>)
Op(op, args) == Feat("op", NilS, "", "", "", op, args)
Src(t, name, kind, cols, l, r, on, sel, where, group, having, order, rows) ==
    [t |-> t, name |-> name, kind |-> kind, cols |-> cols, l |-> l, r |-> r, on |-> on, sel |-> sel,
     where |-> where, group |-> group, having |-> having, order |-> order, rows |-> rows]
QueryOf(l, sel, where, group, having, order, rows) ==
    Src("query", "", "", <<>>, l, NilS, NilF, sel, where, group, having, order, rows)
EmptyQuery(l) == QueryOf(l, <<>>, NilF, <<>>, NilF, <<>>, <<>>)
JoinOf(l, r, kind, on) == Src("join", "", kind, <<>>, l, r, on, <<>>, NilF, <<>>, NilF, <<>>, <<>>)
SetOf(l, r, kind) == Src("set", "", kind, <<>>, l, r, NilF, <<>>, NilF, <<>>, NilF, <<>>, <<>>)
RefOf(l, name) == Src("ref", name, "", <<>>, l, NilS, NilF, <<>>, NilF, <<>>, NilF, <<>>, <<>>)

Numeric == {"int", "float"}
Arith == {"add", "sub", "mul", "div", "mod"}
Math == {"abs", "ceil", "floor"}
Compare == {"eq", "ne", "lt", "le", "gt", "ge"}
Logical == {"and", "or", "not"}
NullTest == {"isnull", "notnull"}
Range(s) == {s[i] : i \in DOMAIN s}
MinOf(S) == CHOOSE x \in S : \A y \in S : x <= y
IsOrigin(s) == s.t \in {"table", "ref", "join"}
IsStatement(s) == s.t \in {"query", "set"}
\* a set operand / the operand of .query is the statement equivalent of a source
StatementOf(s) == IF IsStatement(s) THEN s ELSE EmptyQuery(s)

RECURSIVE SchemaOf(_), KindOf(_), Elems(_), HasAgg(_), FeatOK(_), ElemsOf(_), BrokenIn(_)

\* operable behind an alias (grouping compares the operables)
Operable(x) == IF x.f = "alias" THEN x.args[1] ELSE x
NameOf(x) == IF x.f \in {"col", "alias"} THEN x.name ELSE ""
LookupKind(schema, name) ==
    LET idx == {i \in DOMAIN schema : schema[i].name = name}
    IN IF idx = {} THEN "?" ELSE schema[MinOf(idx)].kind

KindOf(x) ==
    CASE x.f = "lit" -> x.kind
      [] x.f = "col" -> LookupKind(SchemaOf(x.src), x.name)
      [] x.f = "alias" -> KindOf(x.args[1])
      [] x.f = "agg" -> IF x.op = "count" THEN "int" ELSE KindOf(x.args[1])
      [] x.f = "op" ->
            IF x.op = "cast" THEN x.kind
            ELSE IF x.op \in Compare \cup Logical \cup NullTest THEN "bool"
            ELSE IF x.op \in {"ceil", "floor"} THEN "int"
            ELSE IF "float" \in {KindOf(x.args[i]) : i \in DOMAIN x.args} THEN "float" ELSE "int"
      [] OTHER -> "?"

(* "the schema of every statement lists its output features' names and kinds in order" *)
SchemaOf(s) ==
    CASE s.t = "table" -> [i \in DOMAIN s.cols |-> [name |-> s.cols[i][1], kind |-> s.cols[i][2]]]
      [] s.t = "ref" -> SchemaOf(s.l)
      [] s.t = "join" -> SchemaOf(s.l) \o SchemaOf(s.r)
      [] s.t = "set" -> SchemaOf(s.l)
      [] s.t = "query" -> IF s.sel = <<>> THEN SchemaOf(s.l)
                          ELSE [i \in DOMAIN s.sel |-> [name |-> NameOf(s.sel[i]), kind |-> KindOf(s.sel[i])]]
      [] OTHER -> <<>>

(* As-is model of forml's Source.schema, used ONLY to recognise the known finding "schema-duplicate-output-names": *)
(* the implementation keeps the fields in a mapping keyed by name, so of several outputs with one name only the     *)
(* first position and the last kind survive.  Never used as the requirement.                                       *)
SameKey(sch, i, j) == i = j \/ (sch[i].name # "" /\ sch[i].name = sch[j].name)
Collapse(sch) ==
    LET firsts == {i \in DOMAIN sch : \A j \in 1..(i - 1) : ~SameKey(sch, i, j)}
        lastOf(i) == CHOOSE j \in DOMAIN sch : SameKey(sch, i, j) /\ \A k \in DOMAIN sch : SameKey(sch, i, k) => k <= j
        RECURSIVE Sorted(_)
        Sorted(S) == IF S = {} THEN <<>> ELSE LET m == MinOf(S) IN <<m>> \o Sorted(S \ {m})
        order == Sorted(firsts)
    IN [n \in DOMAIN order |-> sch[lastOf(order[n])]]

\* elements (columns of tables / references) a feature is composed of
Elems(x) == IF x.f = "col" THEN {x} ELSE UNION {Elems(x.args[i]) : i \in DOMAIN x.args}
HasAgg(x) == x.f = "agg" \/ \E i \in DOMAIN x.args : HasAgg(x.args[i])

\* "comparison and arithmetic operands have compatible kinds" (logical operands are boolean predicates)
FeatOK(x) ==
    CASE x.f \in {"lit", "col"} -> TRUE
      [] x.f = "alias" -> FeatOK(x.args[1])
      [] x.f = "agg" -> FeatOK(x.args[1]) /\ (x.op = "count" \/ KindOf(x.args[1]) \in Numeric)
      [] x.f = "op" ->
            /\ \A i \in DOMAIN x.args : FeatOK(x.args[i])
            /\ LET ks == {KindOf(x.args[i]) : i \in DOMAIN x.args} IN
               CASE x.op \in Arith \cup Math -> ks \subseteq Numeric
                 [] x.op \in Compare \cup NullTest -> ks \subseteq Numeric \/ Cardinality(ks) = 1
                 [] x.op \in Logical -> ks = {"bool"}
                 [] OTHER -> TRUE
      [] OTHER -> FALSE

\* elements available to the clauses of a query over / the condition of a join of an origin
ElemsOf(s) ==
    CASE s.t \in {"table", "ref"} -> {Col(s, SchemaOf(s)[i].name) : i \in DOMAIN SchemaOf(s)}
      [] s.t = "join" -> ElemsOf(s.l) \cup ElemsOf(s.r)
      [] OTHER -> {}

Present(x) == IF x.f = "nil" THEN {} ELSE {x}
(* ---- the documented rules, one operator per rule; each returns the set of rule names broken AT node s ---- *)
QueryFeatures(q) == Range(q.sel) \cup Present(q.where) \cup Range(q.group) \cup Present(q.having)
                        \cup {q.order[i].x : i \in DOMAIN q.order}
Selected(q) == IF q.sel = <<>> THEN ElemsOf(q.l) ELSE Range(q.sel)
BrokenAtQuery(q) ==
    LET fs == QueryFeatures(q) IN
    (IF \A x \in fs : FeatOK(x) THEN {} ELSE {"kinds"})
    \cup (IF \A x \in fs : Elems(x) \subseteq ElemsOf(q.l) THEN {} ELSE {"subset"})
    \cup (IF \A x \in Present(q.where) \cup Present(q.having) : KindOf(x) = "bool" THEN {} ELSE {"boolean"})
    \cup (IF \A x \in Present(q.where) \cup Range(q.group) : ~HasAgg(x) THEN {} ELSE {"aggregate"})
    \cup (IF q.group = <<>> \/ \A x \in Selected(q) : Operable(x) \in Range(q.group) \/ HasAgg(x)
          THEN {} ELSE {"grouping"})
BrokenAtJoin(j) ==
    (IF (j.kind = "cross") <=> (j.on.f = "nil") THEN {} ELSE {"join_condition"})
    \cup (IF \A x \in Present(j.on) : FeatOK(x) THEN {} ELSE {"kinds"})
    \cup (IF \A x \in Present(j.on) : Elems(x) \subseteq ElemsOf(j) THEN {} ELSE {"subset"})
    \cup (IF \A x \in Present(j.on) : KindOf(x) = "bool" THEN {} ELSE {"boolean"})
    \cup (IF \A x \in Present(j.on) : ~HasAgg(x) THEN {} ELSE {"aggregate"})
BrokenAtSet(s) == IF SchemaOf(s.l) = SchemaOf(s.r) THEN {} ELSE {"set_schema"}

\* rule names broken anywhere inside source s
BrokenIn(s) ==
    CASE s.t = "table" -> {}
      [] s.t = "ref" -> BrokenIn(s.l)
      [] s.t = "join" -> BrokenIn(s.l) \cup BrokenIn(s.r) \cup BrokenAtJoin(s)
      [] s.t = "set" -> BrokenIn(s.l) \cup BrokenIn(s.r) \cup BrokenAtSet(s)
      [] s.t = "query" -> BrokenIn(s.l) \cup BrokenAtQuery(s)
      [] OTHER -> {"shape"}
BrokenAt(s) ==
    CASE s.t = "join" -> BrokenAtJoin(s)
      [] s.t = "set" -> BrokenAtSet(s)
      [] s.t = "query" -> BrokenAtQuery(s)
      [] OTHER -> {}

(* A statement is constructible exactly when it is WellFormed *)
WellFormed(s) == BrokenIn(s) = {}

SetToSeq(S) == LET RECURSIVE F(_) F(T) == IF T = {} THEN <<>> ELSE LET x == CHOOSE y \in T : TRUE IN <<x>> \o F(T \ {x}) IN F(S)
=============================================================================
