SPECIFICATION TSpec
CONSTANTS MaxLen = 0
 Kinds <- KindsSmall
 OptSets <- OptsSmall
 Qs <- QsSmall
 Rule = "pattern-outer"
 ExportFrom = 0
INVARIANTS TypeOK PrefPermutation PrefDescending PrefStable PrefIsParseOrder
CONSTRAINT Track
POSTCONDITION Post
CHECK_DEADLOCK FALSE
