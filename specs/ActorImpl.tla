----------------------------- MODULE ActorImpl -----------------------------
(***************************************************************************)
(* C13, as-is implementation model run in lock-step with Actor.tla.        *)
(*                                                                         *)
(* Flavour  "native" - flow.Actor subclass with the default get_state /    *)
(*                     set_state (state = pickled __dict__, INCLUDING the  *)
(*                     params; set_state re-applies the receiver's params) *)
(*          "pair"   - wrap.Actor.train/.apply (Stateful.Actor): state =   *)
(*                     the model only, b'' while untrained, kwargs kept    *)
(*                     as supplied (defaults resolved by the functions)    *)
(*          "class"  - wrap.Actor.type: default state handling over the    *)
(*                     origin's __dict__, pickled through copyreg as       *)
(*                     actor() + set_state(get_state) + set_params(params) *)
(*          "custom" - an actor whose own set_state restores EVERYTHING    *)
(*                     it exported (params included)                       *)
(* Mode     "direct"  - a live actor object driven through the actor API   *)
(*          "functor" - flow.Functor: every call builds a fresh actor from *)
(*                      the builder, presets params and state              *)
(*                      (SetParams.set / SetState.set), then acts; the     *)
(*                      functor OBJECT executing instance i is the carrier *)
(*                      car[i] chosen by Build (one object may execute     *)
(*                      many instances / rebuilds of the same builder)     *)
(* Variant  "asis" or one of the seeded deviations ("preset_before",       *)
(*          "empty_resets", "pickle_drops_params", "functor_keeps_actor" = *)
(*          a functor object builds its actor once and keeps it between    *)
(*          executions - and through its own pickling) that TLC must       *)
(*          refute.                                                        *)
(*                                                                         *)
(* Refines: what the implementation shows (params in force, model) equals  *)
(* the requirement-level instance of Actor.tla after every call.           *)
(***************************************************************************)
EXTENDS Actor
CONSTANTS Flavour, Mode, Variant
VARIABLES obj,    \* Inst -> [b, ov, st, params, model]: functor registers (b, ov, st) / live object (params, model)
          blob,   \* Inst -> implementation-level bytes of snap[j]: [e(mpty), params, model]
          kept    \* carrier id -> the actor objects a functor-keeps-actor implementation would hold in the train / apply
                  \* functor of that carrier ("asis": no such thing, constant)
ivars == <<vars, obj, blob, kept>>
iview == <<view, obj, blob>>
\* the seeded "functor_keeps_actor" deviation depends on who shares a functor object: nothing hidden there
iviewK == <<view, obj, blob, kept, car, bk>>

EmptyBlob == [e |-> TRUE, params |-> NoP, model |-> <<>>]
NoObj == [b |-> NoP, ov |-> NoP, st |-> EmptyBlob, params |-> NoP, model |-> <<>>]
\* --- the actor object -----------------------------------------------------
Ctor(kw) == [params |-> IF Flavour = "pair" THEN kw ELSE Resolve(kw), model |-> <<>>]
GetParamsO(o) == o.params
SetParamsO(o, p) == [o EXCEPT !.params = Merge(@, p)]
TrainO(o, d) == [o EXCEPT !.model = Append(@, [p |-> Resolve(o.params), d |-> d])]
GetStateO(o) ==
    IF ~ht THEN EmptyBlob                                   \* flow.Actor.get_state: not stateful -> b''
    ELSE IF Flavour = "pair" THEN (IF o.model = <<>> THEN EmptyBlob ELSE [e |-> FALSE, params |-> NoP, model |-> o.model])
    ELSE [e |-> FALSE, params |-> o.params, model |-> o.model]
SetStateO(o, s) ==
    CASE Flavour = "pair" -> IF s.e THEN (IF Variant = "empty_resets" THEN [o EXCEPT !.model = <<>>] ELSE o)
                             ELSE [o EXCEPT !.model = s.model]
      [] Flavour = "custom" -> IF s.e THEN o ELSE [params |-> s.params, model |-> s.model]
      [] OTHER -> IF s.e THEN o      \* keep = get_params(); __dict__.update(loads(state)); set_params(**keep)
                  ELSE [params |-> Merge(s.params, GetParamsO(o)), model |-> s.model]
\* copyreg reducer of wrap.Actor.type classes; everything else pickles its __dict__
PickleO(o) ==
    IF Flavour # "class" THEN o
    ELSE LET o1 == SetStateO(Ctor(NoP), GetStateO(o)) IN
         IF Variant = "pickle_drops_params" THEN o1 ELSE SetParamsO(o1, GetParamsO(o))
\* --- flow.Functor ---------------------------------------------------------
PresetParams(o, p) == IF p = NoP THEN o ELSE SetParamsO(o, p)               \* Preset.reduce: `if value:`
PresetState(o, s) ==
    IF s.e THEN o
    ELSE IF Variant = "preset_before" THEN SetStateO(SetParamsO(o, GetParamsO(o)), s)
    ELSE SetParamsO(SetStateO(o, s), GetParamsO(o))                        \* SetState.set
\* Functor(builder, SetParams(SetState(action))).execute(ov, st, ...): as-is acts on builder()
NoKept == [ht |-> FALSE, to |-> Ctor(NoP), ha |-> FALSE, ao |-> Ctor(NoP)]
Keeps == Variant = "functor_keeps_actor"
Base(r, c, kind) == IF Keeps /\ kind = "train" /\ kept[c].ht THEN kept[c].to
                    ELSE IF Keeps /\ kind = "apply" /\ kept[c].ha THEN kept[c].ao
                    ELSE Ctor(r.b)
Mat(r, c, kind) == PresetState(PresetParams(Base(r, c, kind), r.ov), r.st)
Live(i) == IF Mode = "direct" THEN [params |-> obj[i].params, model |-> obj[i].model] ELSE Mat(obj[i], car[i], "apply")
Shown(i) == [params |-> Resolve(Live(i).params), model |-> Live(i).model]

InitObj == IF Mode = "direct" THEN [NoObj EXCEPT !.params = Ctor(bld).params] ELSE [NoObj EXCEPT !.b = bld]
InitI == /\ Init /\ obj = [i \in Inst |-> IF i = 1 THEN InitObj ELSE NoObj] /\ blob = [i \in Inst |-> EmptyBlob]
         /\ kept = [c \in 1..(Depth + 3) |-> NoKept]
Keep == UNCHANGED <<obj, blob, kept>>
SetLive(i, o) == obj' = [obj EXCEPT ![i].params = o.params, ![i].model = o.model]

IBuild(i, ov) == /\ UNCHANGED <<blob, kept>>
                 /\ IF Mode = "direct" THEN obj' = [obj EXCEPT ![i] = [NoObj EXCEPT !.params = Ctor(Merge(bld, ov)).params]]
                    ELSE obj' = [obj EXCEPT ![i] = [NoObj EXCEPT !.b = Merge(bld, ov)]]
ITrain(i, d) == /\ UNCHANGED blob
                /\ IF Mode = "direct" THEN SetLive(i, TrainO(Live(i), d)) /\ UNCHANGED kept
                   ELSE LET o == TrainO(Mat(obj[i], car[i], "train"), d) IN      \* Train action returns get_state()
                        /\ obj' = [obj EXCEPT ![i].st = GetStateO(o)]
                        /\ kept' = IF Keeps THEN [kept EXCEPT ![car[i]].ht = TRUE, ![car[i]].to = o] ELSE kept
\* functor mode: the apply functor of the carrier is executed
IApply(i) == /\ UNCHANGED <<obj, blob>>
             /\ kept' = IF Keeps /\ Mode = "functor" THEN [kept EXCEPT ![car[i]].ha = TRUE, ![car[i]].ao = Live(i)] ELSE kept
IGetState(i) == /\ UNCHANGED <<obj, kept>>
                /\ blob' = [blob EXCEPT ![i] = IF Mode = "direct" THEN GetStateO(Live(i)) ELSE obj[i].st]
ISetState(i, j) == /\ UNCHANGED <<blob, kept>>
                   /\ IF Mode = "direct" THEN SetLive(i, SetStateO(Live(i), blob[j]))
                      ELSE obj' = [obj EXCEPT ![i].st = blob[j]]
ISetEmpty(i) == /\ UNCHANGED <<blob, kept>>
                /\ IF Mode = "direct" THEN SetLive(i, SetStateO(Live(i), EmptyBlob)) ELSE UNCHANGED obj
ISetParams(i, p) == /\ UNCHANGED <<blob, kept>>
                    /\ IF Mode = "direct" THEN SetLive(i, SetParamsO(Live(i), p))
                       ELSE obj' = [obj EXCEPT ![i].ov = Merge(@, p)]
IPickle(i) == /\ UNCHANGED <<blob, kept>>          \* (a kept actor travels inside the pickled functor)
              /\ IF Mode = "direct" THEN SetLive(i, PickleO(Live(i))) ELSE UNCHANGED obj

UpdateI(p) == Update(p) /\ Keep
ResetI(p) == Reset(p) /\ Keep
BuildI(i, ov) == \E c \in Carriers(ov) : BuildOn(i, ov, c) /\ IBuild(i, ov)
TrainI(i, d) == Train(i, d) /\ ITrain(i, d)
ApplyI(i, d) == Apply(i, d) /\ IApply(i)
GetStateI(i) == GetState(i) /\ IGetState(i)
SetEmptyI(i) == SetEmpty(i) /\ ISetEmpty(i)
PickleI(i) == Pickle(i) /\ IPickle(i)
SetStateI(i, j) == SetState(i, j) /\ ISetState(i, j)
SetParamsI(i, p) == SetParams(i, p) /\ ISetParams(i, p)
PickleBI == PickleB /\ Keep
NextI == \/ \E p \in Deltas : UpdateI(p)
         \/ \E p \in (IF Rich THEN Singles \cup {NoP} ELSE {}) : ResetI(p)
         \/ \E i \in Inst : \/ \E ov \in Overrides : BuildI(i, ov)
                            \/ \E d \in Data : TrainI(i, d) \/ ApplyI(i, d)
                            \/ GetStateI(i) \/ SetEmptyI(i) \/ PickleI(i)
                            \/ \E j \in Inst : SetStateI(i, j)
                            \/ \E p \in Deltas : SetParamsI(i, p)
         \/ PickleBI
SpecI == InitI /\ [][NextI]_ivars

\* the implementation shows exactly the requirement-level instance
Refines == \A i \in Inst : inst[i].built => Shown(i) = [params |-> inst[i].params, model |-> inst[i].model]
\* exported bytes carry the exported model (b'' only for "nothing learnt")
BlobRefines == \A j \in Inst : snap[j].has => IF blob[j].e THEN snap[j].model = <<>> ELSE blob[j].model = snap[j].model
=============================================================================
