SPECIFICATION TSpec
CONSTANTS Mode = "release"
 Tier = "quick"
 MaxKeys = 0
 NSpell = 1
 NInvalid = 0
CONSTRAINT Judge
POSTCONDITION Post
CHECK_DEADLOCK FALSE
