----------------------------- MODULE TraceHints -----------------------------
(***************************************************************************)
(* C14, code -> spec.  Judges the push-down hints RECORDED from the real   *)
(* parser (a harness subclass of alchemy.Parser observing visit_table /    *)
(* generate_table) by the requirement of Hints.tla, and the results of a   *)
(* back-end that honours them.  Batch (JSON):                              *)
(*   lits     literal dictionary                                           *)
(*   universe [tables: <<<<name, width>>...>>, maxrows, dom] - when tables *)
(*            is non-empty Safe is DECIDED over every database of that     *)
(*            bound; otherwise over the listed databases only              *)
(*   dbs      sequence of databases (sampled contents)                     *)
(*   obs      sequence of [ast, res, hints, runs, lazy]                    *)
(*            res   "ok" | "parse:<Type>" (recording the hints raised)     *)
(*            hints sequence of [path, table (node), cols, pred] in visit  *)
(*                  order - one per generate_table call                    *)
(*            runs  sequence of [db, plain, hinted]: rows fetched from      *)
(*                  SQLite without hints / with each table occurrence      *)
(*                  replaced by what its hint delivers ([res, rows])       *)
(*            lazy  [res, cols: <<<<table name, <<column...>>>>...>>]: the   *)
(*                  columns the lazy feed reader asked its origins for     *)
(*                  (lazy.Origin.partitions) when reading the statement    *)
(* Verdict per observation:                                                *)
(*   <<wf, crash, drift, scoped, complete, unsafe, first, runs, asis, lazy>> *)
(*   crash    exception class the AS-IS model predicts for parsing         *)
(*   drift    1 iff the recorded hints differ from the as-is model's       *)
(*   scoped / complete   the static clauses on the RECORDED hints          *)
(*   unsafe / first      number of databases (universe or dbs) on which    *)
(*            the recorded row filters lose data, and the first such one   *)
(*   runs     per run <<plain accepted, hinted accepted>> by Accepts       *)
(*   asis     <<scoped, complete, unsafe>> of the as-is hints, computed    *)
(*            only when they differ from the recorded ones (else equal)    *)
(*   lazy     1 / 0: the columns requested from the lazy origins cover     *)
(*            every column used through every occurrence (-1 not observed) *)
(***************************************************************************)
EXTENDS Hints, FactorsImpl, Json, IOUtils, TLCExt
Batch == JsonDeserialize(IOEnv.TRACE_FILE)
BatchLits == Batch.lits
BatchFixed == {Batch.fixed[i] : i \in DOMAIN Batch.fixed}
N == Len(Batch.obs)
Dbs == IF Batch.universe.tables # <<>>
       THEN Universe(Batch.universe.tables, Batch.universe.maxrows, Batch.universe.dom) ELSE Batch.dbs
VARIABLES tid
vars == <<tid>>
Obs == Batch.obs[tid]

Recorded == [i \in DOMAIN Obs.hints |->
                [path |-> Obs.hints[i].path, table |-> Obs.hints[i].table,
                 cols |-> {Obs.hints[i].cols[j] : j \in DOMAIN Obs.hints[i].cols},
                 factors |-> OrLeaves(Obs.hints[i].pred)]]
Impl == ImplHints(Obs.ast)
Flatten(hs) == [i \in DOMAIN hs |-> [path |-> hs[i].path, table |-> hs[i].table, cols |-> hs[i].cols,
                                      factors |-> UNION {OrLeaves(f) : f \in hs[i].factors}]]
Drift == (Obs.res = "ok") # (Impl.crash = "") \/ (Obs.res = "ok" /\ Flatten(Impl.hints) # Recorded)
Unsafe(hs) == {d \in DOMAIN Dbs : ~SafeOn(Obs.ast, hs, Dbs[d])}
First(S) == IF S = {} THEN 0 ELSE MinOf(S)
Static(hs) == <<B(AllScoped(hs)), B(ColumnsComplete(Obs.ast, hs))>>
Ok(out) == B(out.res = "ok")
RunVerdict(run) ==
    <<B(run.plain.res = "ok" /\ Accepts(Obs.ast, Batch.dbs[run.db], run.plain.rows)),
      B(run.hinted.res = "ok" /\ Accepts(Obs.ast, Batch.dbs[run.db], run.hinted.rows))>>
LazyComplete ==
    IF Obs.lazy.res # "ok" THEN -1
    ELSE B(\A o \in Occurrences(Obs.ast) :
              o.used = {} \/ \E i \in DOMAIN Obs.lazy.cols :
                                /\ Obs.lazy.cols[i][1] = o.table.name
                                /\ o.used \subseteq {Obs.lazy.cols[i][2][j] : j \in DOMAIN Obs.lazy.cols[i][2]})
Verdict ==
    IF Obs.res # "ok"
    THEN <<B(WellFormed(Obs.ast)), Impl.crash, B(Drift), 0, 0, 0, 0, <<>>, <<>>, LazyComplete>>
    ELSE LET bad == Unsafe(Recorded)
             asis == IF Drift /\ Impl.crash = ""
                     THEN Static(Impl.hints) \o <<Cardinality(Unsafe(Impl.hints))>> ELSE <<>>
         IN <<B(WellFormed(Obs.ast)), Impl.crash, B(Drift)>> \o Static(Recorded) \o
            <<Cardinality(bad), First(bad), [r \in DOMAIN Obs.runs |-> RunVerdict(Obs.runs[r])], asis, LazyComplete>>
Init == tid \in 1..N
Next == UNCHANGED vars
Spec == Init /\ [][Next]_vars
Judge == TLCSet(tid, Verdict)
ASSUME \A i \in 1..N : TLCSet(i, <<>>)
Post == \A i \in 1..N : PrintT(<<"VERDICT", i>> \o TLCGet(i))
=============================================================================
