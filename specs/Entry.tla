------------------------------- MODULE Entry -------------------------------
(***************************************************************************)
(* C15 (requirement level).  A served request entry - a schema (ordered    *)
(* named, kinded columns) plus a table of values - reaches the pipeline in  *)
(* the schema of the project's apply query:                                 *)
(*                                                                          *)
(*   Aligned:  if every query field name occurs among the entry columns,    *)
(*             the delivered table has exactly Len(q) columns in the        *)
(*             query's order, column j holds the values of the entry        *)
(*             column NAMED q[j].name, each value cast to q[j].kind unless  *)
(*             it already belongs to that kind; an entry holding a value    *)
(*             that cannot be cast is refused;                              *)
(*             if a query field name is missing, the entry is refused       *)
(*             (never padded, never misaligned).                            *)
(*                                                                          *)
(* An entry schema with a repeated column name is ambiguous: it may be      *)
(* refused where it is built ("illformed") and otherwise any of the equally *)
(* named columns may be the source (Choices).                               *)
(*                                                                          *)
(* Values are abstract: [t, s, n]                                           *)
(*   t = "int" | "flt"         python int n/10 | float n/10                 *)
(*   t = "date" | "ts"         day n \div 10 (| hour n % 10)                *)
(*   t = "str"                 s = "i" int literal, "f" float literal,      *)
(*                             "d" ISO date, "t" ISO timestamp, "x" junk    *)
(* Delivered values are compared as denotations (Den): a number is a number *)
(* whatever container type carried it.                                      *)
(***************************************************************************)
EXTENDS Integers, Sequences, FiniteSets, TLC

CONSTANTS Kinds,      \* kinds used by the generator, subset of {"int","flt","str","date","ts"}
          Pool,       \* column names 1..Pool (query field j is named j)
          MaxQ, MaxE, \* query fields / entry columns
          NRows,      \* rows of the entry
          NVariants,  \* data variants per arrangement
          AllowDup    \* also arrange entries with repeated column names

VARIABLES q, e, d, phase, out
vars == <<q, e, d, phase, out>>

V(t, s, n) == [t |-> t, s |-> s, n |-> n]
Fld(nm, k) == [name |-> nm, kind |-> k]

(************************* kinds and casting ********************************)
\* dsl.<Kind>.match(other): `other` is an instance of this kind's class (Timestamp derives from Date)
SubKinds(k) == IF k = "date" THEN {"date", "ts"} ELSE {k}
Match(expected, actual) == actual \in SubKinds(expected)

\* isinstance(value, kind.__type__): Integral < Real; datetime < date
Belongs(v, k) == CASE k = "int" -> v.t = "int"
                   [] k = "flt" -> v.t \in {"int", "flt"}
                   [] k = "str" -> v.t = "str"
                   [] k = "date" -> v.t \in {"date", "ts"}
                   [] k = "ts" -> v.t = "ts"

\* combinations the documentation does not define (numbers <-> calendar values): never generated
Silent(v, k) == \/ k \in {"int", "flt"} /\ v.t \in {"date", "ts"}
                \/ k \in {"date", "ts"} /\ (v.t \in {"int", "flt"} \/ (v.t = "str" /\ v.s \in {"i", "f"}))

Trunc(n) == IF n >= 0 THEN (n \div 10) * 10 ELSE -(((-n) \div 10) * 10)

Castable(v, k) ==
    \/ Belongs(v, k)
    \/ k = "int" /\ (v.t = "flt" \/ (v.t = "str" /\ v.s = "i"))
    \/ k = "flt" /\ v.t = "str" /\ v.s \in {"i", "f"}
    \/ k = "str"
    \/ k = "date" /\ v.t = "str" /\ v.s \in {"d", "t"}
    \/ k = "ts" /\ (v.t = "date" \/ (v.t = "str" /\ v.s \in {"d", "t"}))

Cast(v, k) ==
    IF Belongs(v, k) THEN v
    ELSE CASE k = "int" -> V("int", "-", IF v.t = "flt" THEN Trunc(v.n) ELSE v.n)
           [] k = "flt" -> V("flt", "-", v.n)
           [] k = "str" -> V("str", CASE v.t = "int" -> "i" [] v.t = "flt" -> "f" [] v.t = "date" -> "d" [] OTHER -> "t", v.n)
           [] k = "date" -> V("date", "-", (v.n \div 10) * 10)
           [] k = "ts" -> V("ts", "-", v.n)

Den(v) == IF v.t \in {"int", "flt"} THEN V("num", "-", v.n) ELSE v

(**************************** the requirement *******************************)
Names(S) == {S[i].name : i \in DOMAIN S}
WellFormed(E) == \A i, j \in DOMAIN E : E[i].name = E[j].name => i = j
Complete(Q, E) == Names(Q) \subseteq Names(E)
\* every way of sourcing query field j from an entry column of the same name (exactly one for a well-formed entry)
Sources(Q, E, j) == {c \in DOMAIN E : E[c].name = Q[j].name}
Choices(Q, E) == LET RECURSIVE Upto(_)
                     Upto(j) == IF j = 0 THEN {<<>>} ELSE {Append(f, c) : f \in Upto(j - 1), c \in Sources(Q, E, j)}
                 IN  Upto(Len(Q))
Deliverable(Q, D, f) == \A r \in DOMAIN D : \A j \in DOMAIN Q : Castable(D[r][f[j]], Q[j].kind)
Delivered(Q, D, f) == [r \in DOMAIN D |-> [j \in DOMAIN Q |-> Den(Cast(D[r][f[j]], Q[j].kind))]]

Result(res, rows) == [res |-> res, rows |-> rows]
Refused == Result("refused", <<>>)
IllFormed == Result("illformed", <<>>)
NoOut == Result("none", <<>>)
OutOf(Q, D, f) == IF Deliverable(Q, D, f) THEN Result("ok", Delivered(Q, D, f)) ELSE Refused

Allowed(Q, E, D) ==
    (IF Choices(Q, E) = {} THEN {Refused} ELSE {OutOf(Q, D, f) : f \in Choices(Q, E)})
        \cup (IF WellFormed(E) THEN {} ELSE {IllFormed})
Aligned(Q, E, D, o) == o \in Allowed(Q, E, D)
SilentInput(Q, E, D) == \E f \in Choices(Q, E) : \E r \in DOMAIN D : \E j \in DOMAIN Q : Silent(D[r][f[j]], Q[j].kind)

(************************ generator: arrangements ***************************)
Temporal == Kinds \cap {"date", "ts"} # {}
Dom(k) == CASE k = "int" -> <<V("int", "-", 30), V("int", "-", -20), V("int", "-", 0)>>
            [] k = "flt" -> <<V("flt", "-", 25), V("flt", "-", -15), V("flt", "-", 20)>>
            [] k = "date" -> <<V("date", "-", 10), V("date", "-", 30)>>
            [] k = "ts" -> <<V("ts", "-", 13), V("ts", "-", 20), V("ts", "-", 37)>>
            [] k = "str" -> IF Temporal THEN <<V("str", "d", 10), V("str", "t", 27), V("str", "t", 40), V("str", "x", 1)>>
                            ELSE <<V("str", "i", 30), V("str", "f", 15), V("str", "i", -20), V("str", "f", 20), V("str", "x", 1)>>
\* honest data: every value of a column has exactly the column's declared kind
Data(E, variant) == [r \in 1..NRows |-> [c \in DOMAIN E |->
                        LET dom == Dom(E[c].kind) IN dom[((2 * c + r + variant) % Len(dom)) + 1]]]

Init == q = <<>> /\ e = <<>> /\ d = <<>> /\ phase = "query" /\ out = NoOut

\* the project declares the next field of its apply query
Declare(k) == /\ phase = "query" /\ Len(q) < MaxQ
              /\ q' = Append(q, Fld(Len(q) + 1, k))
              /\ UNCHANGED <<e, d, phase, out>>
Seal == /\ phase = "query" /\ Len(q) >= 1
        /\ phase' = "entry" /\ UNCHANGED <<q, e, d, out>>
\* the client arranges the next column of its request
Supply(nm, k) == /\ phase = "entry" /\ Len(e) < MaxE
                 /\ AllowDup \/ nm \notin Names(e)
                 /\ e' = Append(e, Fld(nm, k))
                 /\ UNCHANGED <<q, d, phase, out>>
Fill(variant) == /\ phase = "entry" /\ Len(e) >= 1
                 /\ d' = Data(e, variant) /\ phase' = "filled"
                 /\ UNCHANGED <<q, e, out>>
\* the feed hands the entry to the pipeline (or refuses it)
ServeWith(o) == /\ phase = "filled"
                /\ out' = o /\ phase' = "served"
                /\ UNCHANGED <<q, e, d>>
Serve == /\ phase = "filled"
         /\ \E o \in Allowed(q, e, d) : ServeWith(o)

Build == \/ \E k \in Kinds : Declare(k)
         \/ Seal
         \/ \E nm \in 1..Pool : \E k \in Kinds : Supply(nm, k)
         \/ \E variant \in 0..(NVariants - 1) : Fill(variant)
Next == Build \/ Serve
Spec == Init /\ [][Next]_vars

(*************************** clauses (invariants) ***************************)
Served == phase = "served"
\* the requirement is satisfiable on every input: something is always allowed, and a well-formed entry has one answer
Decided == phase = "filled" => /\ Allowed(q, e, d) # {}
                               /\ WellFormed(e) => Cardinality(Allowed(q, e, d)) = 1
                               /\ ~SilentInput(q, e, d)
RefusedWhenIncomplete == (Served /\ ~Complete(q, e)) => out.res # "ok"
ServedWhenComplete == (Served /\ Complete(q, e) /\ \A f \in Choices(q, e) : Deliverable(q, d, f)) => out.res \in {"ok", "illformed"}
ShapeIsQuery == (Served /\ out.res = "ok") => /\ Len(out.rows) = Len(d)
                                              /\ \A r \in DOMAIN out.rows : Len(out.rows[r]) = Len(q)
\* column j comes from an entry column named q[j].name (cast or not)
ColumnsByName == (Served /\ out.res = "ok" /\ Len(out.rows) = Len(d)) =>
    \E f \in Choices(q, e) : \A r \in DOMAIN d : \A j \in DOMAIN q :
        j \in DOMAIN out.rows[r] /\ out.rows[r][j] \in {Den(d[r][f[j]]), Den(Cast(d[r][f[j]], q[j].kind))}
\* ... and every value is cast to the declared kind (the whole of Aligned)
ValuesCast == Served => Aligned(q, e, d, out)
=============================================================================
