------------------------------ MODULE TagCodec ------------------------------
(***************************************************************************)
(* C18 (generation tag part).  The generation metadata (Tag) through the   *)
(* training life cycle:                                                    *)
(*                                                                         *)
(*   open generation g  ->  trigger training / tuning, replace ordinal,    *)
(*   score, states  ->  dump (commit as generation g+1)  ->  load (the     *)
(*   next run opens g+1 and continues from what it has read)               *)
(*                                                                         *)
(* Value domain (all abstract, concretised by the harness):                *)
(*   timestamp  0 = absent, 1..NT                                          *)
(*   ordinal    [k, v]: k in "none" + the primitive kinds, v in -1..1      *)
(*              (a negative, the zero/empty/epoch and a positive value)    *)
(*   score      [p, v]: absent or -1..1                                    *)
(*   states     injective sequences over 1..NS (positional!), length 0..NS *)
(*                                                                         *)
(* A persisted tag is a DOCUMENT: a finite map from field names to         *)
(* non-null values (the storage format has no null: a null field is an     *)
(* absent key) plus the list of state ids.  Codec names the pair           *)
(* (Dump, Load) under scrutiny:                                            *)
(*   "req"    null <-> absent key for every field                          *)
(*   "asis"   forml 0bb2ca9: training.timestamp is mandatory on load       *)
(*   "falsy"  a codec that drops falsy ordinals (mutant, must be refuted)  *)
(* Requirement (RoundTrip): whatever is dumped loads back equal.           *)
(***************************************************************************)
EXTENDS Integers, Sequences, FiniteSets, TLC, Json
CONSTANTS NT,          \* timestamps 1..NT
          NS,          \* state ids 1..NS
          Kinds,       \* primitive ordinal kinds
          Codec,       \* "req" | "asis" | "falsy"
          Untrained,   \* TRUE: tags without a training timestamp may be dumped as well
          MaxGen       \* generations committed per behaviour
VARIABLES tag,         \* the working tag
          phase,       \* "edit" | "stored"
          doc,         \* the persisted document (phase "stored")
          gen,         \* generations committed so far
          hist         \* operations of the current generation (export only)
vars == <<tag, phase, doc, gen, hist>>

NoOrd == [k |-> "none", v |-> 0]
NoScore == [p |-> FALSE, v |-> 0]
Ords == ({NoOrd} \cup {[k |-> kk, v |-> i] : kk \in Kinds, i \in -1..1}) \ {[k |-> "bool", v |-> 0 - 1]}
Scores == {NoScore} \cup {[p |-> TRUE, v |-> i] : i \in -1..1}
Inj(n) == {s \in [1..n -> 1..NS] : \A i, j \in 1..n : i # j => s[i] # s[j]}
StateSeqs == UNION {Inj(n) : n \in 0..NS}

Training(ts, o) == [ts |-> ts, ord |-> o]
Tuning(ts, s) == [ts |-> ts, sc |-> s]
\* the constructor: a mode without a timestamp is the empty mode
Tag(tr, tu, st) == [tr |-> IF tr.ts = 0 THEN Training(0, NoOrd) ELSE tr,
                    tu |-> IF tu.ts = 0 THEN Tuning(0, NoScore) ELSE tu,
                    st |-> st]
NoTag == Tag(Training(0, NoOrd), Tuning(0, NoScore), <<>>)
Tags == {Tag(Training(t1, o), Tuning(t2, s), st) : t1 \in 0..NT, o \in Ords, t2 \in 0..NT, s \in Scores, st \in StateSeqs}

-----------------------------------------------------------------------------
(* the codec *)
Falsy(o) == o.k = "none" \/ (o.v = 0 /\ o.k \in {"bool", "int", "float", "dec", "str"})   \* False, 0, 0.0, Decimal(0), ''
NullFields(t) == {f \in {"training.timestamp", "training.ordinal", "tuning.timestamp", "tuning.score"} :
                     \/ (f = "training.timestamp" /\ t.tr.ts = 0)
                     \/ (f = "training.ordinal" /\ IF Codec = "falsy" THEN Falsy(t.tr.ord) ELSE t.tr.ord = NoOrd)
                     \/ (f = "tuning.timestamp" /\ t.tu.ts = 0)
                     \/ (f = "tuning.score" /\ ~t.tu.sc.p)}
Field(t, f) == CASE f = "training.timestamp" -> [ts |-> t.tr.ts, ord |-> NoOrd, sc |-> NoScore]
                 [] f = "training.ordinal" -> [ts |-> 0, ord |-> t.tr.ord, sc |-> NoScore]
                 [] f = "tuning.timestamp" -> [ts |-> t.tu.ts, ord |-> NoOrd, sc |-> NoScore]
                 [] f = "tuning.score" -> [ts |-> 0, ord |-> NoOrd, sc |-> t.tu.sc]
AllFields == {"training.timestamp", "training.ordinal", "tuning.timestamp", "tuning.score"}
Dump(t) == [keys |-> AllFields \ NullFields(t),
            val |-> [f \in AllFields |-> IF f \in NullFields(t) THEN [ts |-> 0, ord |-> NoOrd, sc |-> NoScore] ELSE Field(t, f)],
            states |-> t.st]
Get(d, f) == IF f \in d.keys THEN d.val[f] ELSE [ts |-> 0, ord |-> NoOrd, sc |-> NoScore]      \* .get(f) -> null
Failed == [tr |-> Training(0 - 1, NoOrd), tu |-> Tuning(0 - 1, NoScore), st |-> <<>>]           \* load raised
Load(d) == IF Codec = "asis" /\ "training.timestamp" \notin d.keys THEN Failed
           ELSE Tag(Training(Get(d, "training.timestamp").ts, Get(d, "training.ordinal").ord),
                    Tuning(Get(d, "tuning.timestamp").ts, Get(d, "tuning.score").sc), d.states)
NoDoc == Dump(NoTag)

-----------------------------------------------------------------------------
(* life cycle *)
Ev(op, a, res, allowed) == [op |-> op, a |-> a, res |-> res, allowed |-> allowed]
Arg(ts, o, s, st) == [ts |-> ts, ord |-> o, sc |-> s, st |-> st]
NoArg == Arg(0, NoOrd, NoScore, <<>>)
Step(op, a, t) == /\ tag' = t /\ hist' = Append(hist, Ev(op, a, t, {t})) /\ UNCHANGED <<phase, doc, gen>>

Init == tag = NoTag /\ phase = "edit" /\ doc = NoDoc /\ gen = 0 /\ hist = <<>>

\* trigger: the mode's timestamp is set; whether its other attribute survives is left open by the requirement
\* (the docstring says "all attributes reset", the code keeps them): both outcomes are allowed
TrainResults(ts) == {Tag(Training(ts, o), tag.tu, tag.st) : o \in {tag.tr.ord, NoOrd}}
TrainTrigger(ts) == /\ phase = "edit"
                    /\ \E t \in TrainResults(ts) :
                          /\ tag' = t /\ hist' = Append(hist, Ev("train_trigger", Arg(ts, NoOrd, NoScore, <<>>), t, TrainResults(ts)))
                    /\ UNCHANGED <<phase, doc, gen>>
TuneResults(ts) == {Tag(tag.tr, Tuning(ts, s), tag.st) : s \in {tag.tu.sc, NoScore}}
TuneTrigger(ts) == /\ phase = "edit"
                   /\ \E t \in TuneResults(ts) :
                         /\ tag' = t /\ hist' = Append(hist, Ev("tune_trigger", Arg(ts, NoOrd, NoScore, <<>>), t, TuneResults(ts)))
                   /\ UNCHANGED <<phase, doc, gen>>
\* replacing an attribute of a mode that was never triggered is not part of the life cycle (excluded)
ReplaceOrdinal(o) == phase = "edit" /\ tag.tr.ts # 0 /\
                     Step("replace_ordinal", Arg(0, o, NoScore, <<>>), Tag(Training(tag.tr.ts, o), tag.tu, tag.st))
ReplaceScore(s) == phase = "edit" /\ tag.tu.ts # 0 /\
                   Step("replace_score", Arg(0, NoOrd, s, <<>>), Tag(tag.tr, Tuning(tag.tu.ts, s), tag.st))
ReplaceStates(st) == phase = "edit" /\ Step("replace_states", Arg(0, NoOrd, NoScore, st), Tag(tag.tr, tag.tu, st))
\* commit: persist the working tag; only trained tags are reachable through the life cycle unless Untrained
DumpTag == /\ phase = "edit" /\ gen < MaxGen /\ (Untrained \/ tag.tr.ts # 0)
           /\ doc' = Dump(tag) /\ phase' = "stored" /\ gen' = gen + 1
           /\ hist' = Append(hist, Ev("dump", NoArg, tag, {tag}))
           /\ UNCHANGED tag
\* the next run opens the generation and continues from what it has read
LoadTag == /\ phase = "stored"
           /\ tag' = Load(doc) /\ phase' = "edit" /\ hist' = <<Ev("load", NoArg, Load(doc), {Load(doc)})>>
           /\ doc' = NoDoc /\ UNCHANGED gen
Next == \/ \E ts \in 1..NT : TrainTrigger(ts) \/ TuneTrigger(ts)
        \/ \E o \in Ords : ReplaceOrdinal(o)
        \/ \E s \in Scores : ReplaceScore(s)
        \/ \E st \in StateSeqs : ReplaceStates(st)
        \/ DumpTag \/ LoadTag
Spec == Init /\ [][Next]_vars

View == <<tag, phase, doc, gen>>
TypeOK == tag \in Tags \cup {Failed} /\ phase \in {"edit", "stored"} /\ gen \in 0..MaxGen
\* one invariant per clause
RoundTrip == phase = "stored" => Load(doc) = tag                        \* reads back exactly as written
NullIsAbsent == phase = "stored" => \A f \in doc.keys : doc.val[f] # [ts |-> 0, ord |-> NoOrd, sc |-> NoScore]
StatesPositional == phase = "stored" => doc.states = tag.st
TriggerSetsTimestamp == (hist # <<>> /\ hist[Len(hist)].op = "train_trigger") => tag.tr.ts = hist[Len(hist)].a.ts
NeverFailed == tag # Failed

\* exports (one witness history per distinct dumped tag; all successors of every editable tag)
SetToSeq(S) == LET RECURSIVE F(_) F(T) == IF T = {} THEN <<>> ELSE LET x == CHOOSE y \in T : TRUE IN <<x>> \o F(T \ {x}) IN F(S)
HistJson == [i \in 1..Len(hist) |-> [op |-> hist[i].op, a |-> hist[i].a, res |-> hist[i].res, allowed |-> SetToSeq(hist[i].allowed)]]
Export == phase = "stored" => PrintT(ToJson([kind |-> "history", gen |-> gen, hist |-> HistJson, back |-> Load(doc)]))
\* every transition out of an editable tag (op, argument, allowed results); hist-independent
Succ == {Ev("train_trigger", Arg(ts, NoOrd, NoScore, <<>>), tag, TrainResults(ts)) : ts \in 1..NT}
        \cup {Ev("tune_trigger", Arg(ts, NoOrd, NoScore, <<>>), tag, TuneResults(ts)) : ts \in 1..NT}
        \cup {Ev("replace_ordinal", Arg(0, o, NoScore, <<>>), tag, {Tag(Training(tag.tr.ts, o), tag.tu, tag.st)}) :
                   o \in {x \in Ords : tag.tr.ts # 0}}
        \cup {Ev("replace_score", Arg(0, NoOrd, s, <<>>), tag, {Tag(tag.tr, Tuning(tag.tu.ts, s), tag.st)}) :
                   s \in {x \in Scores : tag.tu.ts # 0}}
        \cup {Ev("replace_states", Arg(0, NoOrd, NoScore, st), tag, {Tag(tag.tr, tag.tu, st)}) : st \in StateSeqs}
\* (compact tuples <<tr.ts, ord.k, ord.v, tu.ts, score present, score, states>> keep the export small)
Enc(t) == <<t.tr.ts, t.tr.ord.k, t.tr.ord.v, t.tu.ts, IF t.tu.sc.p THEN 1 ELSE 0, t.tu.sc.v, t.st>>
ExportSteps == (phase = "edit" /\ gen = 0) =>
                  PrintT(ToJson([kind |-> "steps", tag |-> Enc(tag),
                                 steps |-> SetToSeq({<<e.op, e.a.ts, e.a.ord.k, e.a.ord.v, IF e.a.sc.p THEN 1 ELSE 0, e.a.sc.v, e.a.st,
                                                       SetToSeq({Enc(t) : t \in e.allowed})>> : e \in Succ})]))
=============================================================================
