SPECIFICATION Spec
CONSTANTS N = 3
 M = 2
 MaxLen = 2
INVARIANT Sound
INVARIANT Export
CHECK_DEADLOCK FALSE
