SPECIFICATION Spec
CONSTANTS N = 3
 M = 2
 MaxLen = 2
 MaxStep = 2
INVARIANT Sound
INVARIANT ProgressionSound
INVARIANT Export
CHECK_DEADLOCK FALSE
