SPECIFICATION Spec
CONSTANTS Reqs <- McReqsB
 Apps <- McApps
INVARIANT OwnAnswer
INVARIANT Refused
INVARIANT MostPreferredContentType
PROPERTY AllAnswered
CHECK_DEADLOCK FALSE
