--------------------------- MODULE TraceImporter ---------------------------
(***************************************************************************)
(* C09, code -> spec.  Every observation recorded from the real            *)
(* io.Importer / feed parser is replayed as a behaviour of Importer.tla:   *)
(*    K register events (the pool as it was passed to io.Importer),        *)
(*    one answer event (sel = position of the returned feed in the pool,   *)
(*                      0 = forml.MissingError, -1 = anything else),       *)
(*    K parse events   (outcome of each feed's own parser, pool order).    *)
(* Register / Match / Missing / Parse are the requirement-level actions.   *)
(* A parse outcome the requirement does not allow is taken by Deviation    *)
(* and recorded together with the triage class of the feed (so that the    *)
(* rest of the observation is still validated); a wrong answer stops the   *)
(* trace.  Verdict per observation: <<id, events matched, events, bad>>.   *)
(***************************************************************************)
EXTENDS Importer
VARIABLES oid, l, bad
tvars == <<sid, pool, phase, sel, parsed, oid, l, bad>>
Obs == D.stmts[sid].obs[oid]
K == Len(Obs.pool)
Events == 2 * K + 1

TInit == /\ sid \in 1..NS /\ oid \in DOMAIN D.stmts[sid].obs
         /\ pool = <<>> /\ phase = "pool" /\ sel = -1 /\ parsed = <<>>
         /\ l = 1 /\ bad = <<>>
TRegister == /\ l <= K
             /\ LET f == Obs.pool[l] IN Range(f.a) \subseteq Idx /\ Register(f.p, Range(f.a), f.x)
             /\ l' = l + 1 /\ UNCHANGED <<oid, bad>>
TAnswer == /\ l = K + 1
           /\ IF Obs.sel = 0 THEN Missing ELSE Obs.sel \in Feeds /\ Match(Obs.sel)
           /\ l' = l + 1 /\ UNCHANGED <<oid, bad>>
TParse == /\ l > K + 1 /\ l <= Events
          /\ LET j == l - K - 1 IN
               IF Obs.parse[j] = Expected(j)
               THEN Parse(j) /\ UNCHANGED bad
               ELSE \* Deviation: the parser of feed j did something the requirement forbids
                    /\ parsed' = Append(parsed, Obs.parse[j])
                    /\ bad' = Append(bad, <<j, IF ThroughNonLeafOnly(T, pool[j].adv, Root) THEN 1 ELSE 0>>)
                    /\ UNCHANGED <<sid, pool, phase, sel>>
          /\ l' = l + 1 /\ UNCHANGED oid
TNext == TRegister \/ TAnswer \/ TParse
TSpec == TInit /\ [][TNext]_tvars

\* furthest point reached per observation (register Obs.id) - the behaviours are deterministic
Track == TLCSet(Obs.id, IF TLCGet(Obs.id)[1] < l THEN <<l, bad>> ELSE TLCGet(Obs.id))
ASSUME \A i \in 1..D.nobs : TLCSet(i, <<0, <<>>>>)
Post == \A i \in 1..D.nobs : PrintT(<<"VERDICT", i, TLCGet(i)[1] - 1, TLCGet(i)[2]>>)
\* the clauses of the property hold along every accepted prefix without deviation
TraceSelectedCovers == bad = <<>> => SelectedCovers
TraceInputsOK == (l = 1) => InputOK(sid)
=============================================================================
