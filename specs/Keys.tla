-------------------------------- MODULE Keys --------------------------------
(***************************************************************************)
(* C18 (keys part).  Registry level keys, their order and level listings.  *)
(*                                                                         *)
(* Release keys are PEP 440 versions, abstracted to records                *)
(*     [e, r, pp, pn, post, dev, loc]                                      *)
(* (epoch, release tuple, pre-release phase 0 none/1 a/2 b/3 rc and its    *)
(* number, post number or None, dev number or None, local segments).       *)
(* `Less` transcribes the ORDER PEP 440 PRESCRIBES IN WORDS ("Summary of   *)
(* permitted suffixes and relative ordering"): hierarchical, suffix class  *)
(* by suffix class.  `KeyLess` is the implementation-shaped formulation    *)
(* (one lexicographically compared sort key with +-infinity fillers, the   *)
(* way `packaging` does it); TLC checks on the whole lattice that the two  *)
(* agree and that `Less` is a strict total order modulo `Eq`.              *)
(*                                                                         *)
(* Generation keys are the naturals from 1.                                *)
(*                                                                         *)
(* A registry level is a set of directory entries `dirs`; an entry is      *)
(* [v, s]: v = index of the denoted key in the lattice (0 = the name does  *)
(* not denote a key), s = which spelling of it is used as the name.        *)
(* Requirement: the listing of a level is the strictly ascending sequence  *)
(* of the distinct valid keys present (sorted + duplicate-free, invalid    *)
(* names rejected), hence "latest" = last = maximum.                       *)
(*                                                                         *)
(* Committing a generation (Release.put, the way every training / tuning   *)
(* ends) is defined on EVERY level state, not only on the contiguous       *)
(* listings 1..n the life cycle alone produces (generations stored under   *)
(* explicit numbers through the provider API or pruned from the storage    *)
(* leave gaps, and foreign names may sit next to them): the new generation *)
(* gets the successor of the latest key (1 on an empty level), so it is a  *)
(* NEW key (nothing written earlier is replaced) and the new maximum (the  *)
(* next run, which opens "latest", continues from what was committed).     *)
(*                                                                         *)
(* What a level holds reaches the directory through a registry PROVIDER,   *)
(* whose contract (asset.Registry.releases / generations) lets it report   *)
(* each entry in any of several FORMS: as a constructed key ("key", what   *)
(* the bundled providers do), as its plain name ("str") or - generations   *)
(* only - as a plain number ("int").  Nothing of the requirement depends   *)
(* on the form: listing, latest and commit are functions of `dirs` alone.  *)
(* One latitude: a provider that REPORTS a name which is no key (the "key" *)
(* form cannot) may have the whole report refused (Key.Invalid) instead of *)
(* the name being left out - both reject the invalid key (MayReject).      *)
(***************************************************************************)
EXTENDS Integers, Sequences, FiniteSets, TLC, Json
CONSTANTS Mode,       \* "release" | "generation"
          Tier,       \* "quick" | "thorough": size of the lattice
          MaxKeys,    \* entries per level
          NSpell,     \* spellings per valid key (rendered by the harness)
          NInvalid    \* number of invalid names
VARIABLES dirs,      \* the sub-directories of the level
          listing,   \* what listing the level returns
          put,       \* number of the generation committed on top of this level (0 = nothing committed yet)
          form       \* the form in which the provider reports the level (never read by the requirement)
vars == <<dirs, listing, put, form>>

\* the forms in which the provider reports the entries of a level (a number is no release name), and the
\* number of entries per level reported in another form than "key" (order, duplicates and rejection show in pairs)
Forms == IF Mode = "release" THEN {"key", "str"} ELSE {"key", "str", "int"}
MaxRaw == IF Mode = "release" THEN 2 ELSE 3
None == -1
Inf == 1000000
NoLoc == <<>>
Max(a, b) == IF a < b THEN b ELSE a
A(x) == [num |-> FALSE, v |-> x]   \* alphabetic local segment (dictionary encoded: 1 "abc" < 2 "abd")
N(x) == [num |-> TRUE, v |-> x]    \* numeric local segment
Ver(e, r, pp, pn, post, dev, loc) == [e |-> e, r |-> r, pp |-> pp, pn |-> pn, post |-> post, dev |-> dev, loc |-> loc]

\* the version lattice: every suffix class of PEP 440, numeric (not textual) comparison, zero padding, epochs
VersionsQuick == <<
    Ver(0, <<0>>, 0, 0, None, None, NoLoc),           \* 0           (Release.Key.MIN)
    Ver(0, <<0, 9>>, 0, 0, None, None, NoLoc),        \* 0.9
    Ver(0, <<1, 0>>, 0, 0, None, 1, NoLoc),           \* 1.0.dev1
    Ver(0, <<1, 0>>, 1, 1, None, 1, NoLoc),           \* 1.0a1.dev1
    Ver(0, <<1, 0>>, 1, 1, None, None, NoLoc),        \* 1.0a1
    Ver(0, <<1, 0>>, 1, 10, None, None, NoLoc),       \* 1.0a10
    Ver(0, <<1, 0>>, 1, 2, None, None, NoLoc),        \* 1.0a2
    Ver(0, <<1, 0>>, 2, 1, None, None, NoLoc),        \* 1.0b1
    Ver(0, <<1, 0>>, 3, 1, None, None, NoLoc),        \* 1.0rc1
    Ver(0, <<1, 0>>, 0, 0, None, None, NoLoc),        \* 1.0
    Ver(0, <<1>>, 0, 0, None, None, NoLoc),           \* 1           (= 1.0)
    Ver(0, <<1, 0>>, 0, 0, 1, 1, NoLoc),              \* 1.0.post1.dev1
    Ver(0, <<1, 0>>, 0, 0, 1, None, NoLoc),           \* 1.0.post1
    Ver(0, <<1, 0, 1>>, 0, 0, None, None, NoLoc),     \* 1.0.1
    Ver(0, <<1, 2>>, 0, 0, None, None, NoLoc),        \* 1.2
    Ver(0, <<1, 10>>, 0, 0, None, None, NoLoc),       \* 1.10
    Ver(1, <<0, 5>>, 0, 0, None, None, NoLoc)         \* 1!0.5
  >>
VersionsMore == <<
    Ver(0, <<1, 0, 0>>, 0, 0, None, None, NoLoc),     \* 1.0.0       (= 1.0)
    Ver(0, <<1, 0>>, 0, 0, None, 2, NoLoc),           \* 1.0.dev2
    Ver(0, <<1, 0>>, 0, 0, None, 0, NoLoc),           \* 1.0.dev0
    Ver(0, <<1, 0>>, 1, 1, 2, None, NoLoc),           \* 1.0a1.post2
    Ver(0, <<1, 0>>, 1, 1, 2, 3, NoLoc),              \* 1.0a1.post2.dev3
    Ver(0, <<1, 0>>, 1, 0, None, None, NoLoc),        \* 1.0a0
    Ver(0, <<1, 0>>, 3, 2, None, 1, NoLoc),           \* 1.0rc2.dev1
    Ver(0, <<1, 0>>, 0, 0, 0, None, NoLoc),           \* 1.0.post0
    Ver(0, <<1, 0>>, 0, 0, 2, None, NoLoc),           \* 1.0.post2
    Ver(0, <<1, 0>>, 0, 0, 10, None, NoLoc),          \* 1.0.post10
    Ver(0, <<1, 0>>, 0, 0, None, None, <<A(1)>>),     \* 1.0+abc
    Ver(0, <<1, 0>>, 0, 0, None, None, <<A(1), N(1)>>), \* 1.0+abc.1
    Ver(0, <<1, 0>>, 0, 0, None, None, <<A(2)>>),     \* 1.0+abd
    Ver(0, <<1, 0>>, 0, 0, None, None, <<N(1)>>),     \* 1.0+1
    Ver(0, <<1, 0>>, 0, 0, None, None, <<N(10)>>),    \* 1.0+10
    Ver(0, <<1, 0>>, 0, 0, 1, None, <<A(1)>>),        \* 1.0.post1+abc
    Ver(0, <<1, 1>>, 0, 0, None, 1, NoLoc),           \* 1.1.dev1
    Ver(0, <<2>>, 0, 0, None, None, NoLoc),           \* 2
    Ver(0, <<2, 0>>, 3, 1, None, None, NoLoc),        \* 2.0rc1
    Ver(0, <<10>>, 0, 0, None, None, NoLoc),          \* 10
    Ver(1, <<0, 5>>, 1, 1, None, None, NoLoc),        \* 1!0.5a1
    Ver(2, <<0>>, 0, 0, None, None, NoLoc)            \* 2!0
  >>
Versions == IF Tier = "quick" THEN VersionsQuick ELSE VersionsQuick \o VersionsMore
\* generation candidates that are integers (non-integer names are the invalid entries v = 0)
GensQuick == <<-1, 0, 1, 2, 3, 9, 10, 11, 100>>
Gens == IF Tier = "quick" THEN GensQuick ELSE GensQuick \o <<4, 20, 99, 101, 1000, -10>>

NV == IF Mode = "release" THEN Len(Versions) ELSE Len(Gens)
VIdx == 1..NV

-----------------------------------------------------------------------------
(* PEP 440, requirement level *)
Comp(r, i) == IF i <= Len(r) THEN r[i] ELSE 0     \* "the shorter segment is padded out with additional zeros"
RelLess(x, y) == \E i \in 1..Max(Len(x), Len(y)) : Comp(x, i) < Comp(y, i) /\ \A j \in 1..(i - 1) : Comp(x, j) = Comp(y, j)
RelEq(x, y) == \A i \in 1..Max(Len(x), Len(y)) : Comp(x, i) = Comp(y, i)

\* "Within a numeric release: .devN, aN, bN, rcN, <no suffix>, .postN"
Slot(v) == IF v.pp # 0 THEN v.pp ELSE IF v.post # None THEN 5 ELSE IF v.dev # None THEN 0 ELSE 4
\* "Within a post-release: .devN, <no suffix>" (ordering by the numeric component within a shared prefix)
DevLess(a, b) == a.dev # None /\ (b.dev = None \/ a.dev < b.dev)
PostLess(a, b) == a.post < b.post \/ (a.post = b.post /\ DevLess(a, b))
\* "Within an alpha, beta or release candidate: .devN, <no suffix>, .postN"
Sub(v) == IF v.post # None THEN 2 ELSE IF v.dev # None THEN 0 ELSE 1
PreTailLess(a, b) == Sub(a) < Sub(b) \/ (Sub(a) = Sub(b) /\ ((Sub(a) = 0 /\ a.dev < b.dev) \/ (Sub(a) = 2 /\ PostLess(a, b))))
PublicLess(a, b) == Slot(a) < Slot(b) \/
                    (Slot(a) = Slot(b) /\ ( (Slot(a) = 0 /\ a.dev < b.dev)
                                          \/ (Slot(a) \in 1..3 /\ (a.pn < b.pn \/ (a.pn = b.pn /\ PreTailLess(a, b))))
                                          \/ (Slot(a) = 5 /\ PostLess(a, b)) ))
PublicEq(a, b) == a.pp = b.pp /\ a.pn = b.pn /\ a.post = b.post /\ a.dev = b.dev
\* local version labels: no label first; segment-wise, numeric segments after alphabetic ones, a proper prefix first
SegLess(s, t) == (~s.num /\ t.num) \/ (s.num = t.num /\ s.v < t.v)
LocLess(x, y) == \E i \in 1..Len(y) : (i > Len(x) \/ SegLess(x[i], y[i])) /\ \A j \in 1..(i - 1) : j <= Len(x) /\ x[j] = y[j]

Less(a, b) == a.e < b.e \/ (a.e = b.e /\ (RelLess(a.r, b.r) \/ (RelEq(a.r, b.r) /\
                   (PublicLess(a, b) \/ (PublicEq(a, b) /\ LocLess(a.loc, b.loc))))))
Eq(a, b) == a.e = b.e /\ RelEq(a.r, b.r) /\ PublicEq(a, b) /\ a.loc = b.loc

-----------------------------------------------------------------------------
(* implementation-shaped sort key: <<epoch, stripped release, pre, post, dev, local>> compared lexicographically *)
RECURSIVE Strip(_)
Strip(r) == IF r # <<>> /\ r[Len(r)] = 0 THEN Strip(SubSeq(r, 1, Len(r) - 1)) ELSE r
SeqLess(x, y) == \E i \in 1..Len(y) : (i > Len(x) \/ x[i] < y[i]) /\ \A j \in 1..(i - 1) : j <= Len(x) /\ x[j] = y[j]
PreKey(v) == IF v.pp = 0 /\ v.post = None /\ v.dev # None THEN <<-1, 0>>          \* -Infinity
             ELSE IF v.pp = 0 THEN <<4, 0>> ELSE <<v.pp, v.pn>>                     \* +Infinity | (phase, n)
TailKey(v) == PreKey(v) \o <<v.post>> \o <<IF v.dev = None THEN Inf ELSE v.dev>>   \* post None = -1 = -Infinity
KeyLess(a, b) == a.e < b.e \/ (a.e = b.e /\ (SeqLess(Strip(a.r), Strip(b.r)) \/ (Strip(a.r) = Strip(b.r) /\
                      (SeqLess(TailKey(a), TailKey(b)) \/ (TailKey(a) = TailKey(b) /\ LocLess(a.loc, b.loc))))))

-----------------------------------------------------------------------------
(* keys of either level, by lattice index *)
ValidIdx(i) == IF Mode = "release" THEN TRUE ELSE Gens[i] >= 1          \* naturals starting at one
\* (constant-level matrices: TLC evaluates them once)
LessM == [i \in VIdx |-> [j \in VIdx |-> IF Mode = "release" THEN Less(Versions[i], Versions[j]) ELSE Gens[i] < Gens[j]]]
EqM == [i \in VIdx |-> [j \in VIdx |-> IF Mode = "release" THEN Eq(Versions[i], Versions[j]) ELSE Gens[i] = Gens[j]]]
LessIdx(i, j) == LessM[i][j]
EqIdx(i, j) == EqM[i][j]
Cmp(i, j) == IF LessIdx(i, j) THEN 0 - 1 ELSE IF EqIdx(i, j) THEN 0 ELSE 1
CanonM == [i \in VIdx |-> CHOOSE k \in VIdx : EqIdx(k, i) /\ \A m \in VIdx : EqIdx(m, i) => k <= m]
Canon(i) == CanonM[i]                                                     \* class representative

\* Less is a strict total order modulo Eq, Eq is an equivalence, and the two formulations agree on the lattice
ASSUME \A i \in VIdx : ~LessIdx(i, i) /\ EqIdx(i, i)
ASSUME \A i, j \in VIdx : (LessIdx(i, j) /\ ~LessIdx(j, i) /\ ~EqIdx(i, j)) \/ (LessIdx(j, i) /\ ~LessIdx(i, j) /\ ~EqIdx(i, j))
                          \/ (EqIdx(i, j) /\ EqIdx(j, i) /\ ~LessIdx(i, j) /\ ~LessIdx(j, i))
ASSUME \A i, j, k \in VIdx : (LessIdx(i, j) /\ LessIdx(j, k) => LessIdx(i, k)) /\ (EqIdx(i, j) /\ EqIdx(j, k) => EqIdx(i, k))
                              /\ (EqIdx(i, j) /\ LessIdx(j, k) => LessIdx(i, k)) /\ (LessIdx(i, j) /\ EqIdx(j, k) => LessIdx(i, k))
ASSUME Mode = "release" => \A i, j \in VIdx : Less(Versions[i], Versions[j]) <=> KeyLess(Versions[i], Versions[j])
\* spot lemmas quoted from PEP 440 (quick lattice positions): 1.0.dev1 < 1.0a1.dev1 < 1.0a1 < 1.0a2 < 1.0a10 < 1.0b1 < 1.0rc1
\* < 1.0 = 1 < 1.0.post1.dev1 < 1.0.post1 < 1.0.1 < 1.2 < 1.10 < 1!0.5
ASSUME Mode = "release" => /\ LessIdx(3, 4) /\ LessIdx(4, 5) /\ LessIdx(5, 7) /\ LessIdx(7, 6) /\ LessIdx(6, 8) /\ LessIdx(8, 9)
                           /\ LessIdx(9, 10) /\ EqIdx(10, 11) /\ LessIdx(11, 12) /\ LessIdx(12, 13) /\ LessIdx(13, 14)
                           /\ LessIdx(14, 15) /\ LessIdx(15, 16) /\ LessIdx(16, 17) /\ LessIdx(1, 2) /\ LessIdx(2, 3)

-----------------------------------------------------------------------------
(* a registry level as a set of named sub-directories *)
Entries == {[v |-> i, s |-> k] : i \in VIdx, k \in 1..NSpell} \cup {[v |-> 0, s |-> k] : k \in 1..NInvalid}
Accepted(d) == d.v # 0 /\ ValidIdx(d.v)                      \* the name constructs a key
KeysOf(D) == {Canon(d.v) : d \in {x \in D : Accepted(x)}}    \* distinct keys present
RECURSIVE Sorted(_)
Sorted(S) == IF S = {} THEN <<>> ELSE LET m == CHOOSE x \in S : \A y \in S : ~LessIdx(y, x) IN <<m>> \o Sorted(S \ {m})
Listing == listing
Latest == IF Listing = <<>> THEN 0 ELSE Listing[Len(Listing)]       \* 0 = Listing.Empty

Init == dirs = {} /\ listing = <<>> /\ put = 0 /\ form \in Forms
Mkdir(d) == /\ put = 0 /\ d \notin dirs /\ Cardinality(dirs) < (IF form = "key" THEN MaxKeys ELSE MaxRaw)
            /\ dirs' = dirs \cup {d} /\ listing' = Sorted(KeysOf(dirs')) /\ UNCHANGED <<put, form>>
AddValid(d) == Accepted(d) /\ Mkdir(d)
AddInvalid(d) == ~Accepted(d) /\ Mkdir(d)
\* Release.put: the generation after the latest one, the first one on a level without a valid generation
\* (`dirs` / `listing` keep describing the level the commit started from; the level afterwards is ListingAfter)
NextGen == IF Latest = 0 THEN 1 ELSE Gens[Latest] + 1
Commit == Mode = "generation" /\ put = 0 /\ put' = NextGen /\ UNCHANGED <<dirs, listing, form>>
Next == Commit \/ \E d \in Entries : AddValid(d) \/ AddInvalid(d)
Spec == Init /\ [][Next]_vars

\* one invariant per clause
ListingSorted == \A i, j \in 1..Len(Listing) : i < j => LessIdx(Listing[i], Listing[j])     \* strictly: sorted AND duplicate-free
ListingComplete == /\ \A d \in dirs : Accepted(d) => \E i \in 1..Len(Listing) : EqIdx(Listing[i], d.v)
                   /\ \A i \in 1..Len(Listing) : \E d \in dirs : Accepted(d) /\ EqIdx(Listing[i], d.v)
InvalidRejected == \A i \in 1..Len(Listing) : ValidIdx(Listing[i])
LatestIsMax == IF Latest = 0 THEN \A d \in dirs : ~Accepted(d)
               ELSE \A d \in dirs : Accepted(d) => ~LessIdx(Latest, d.v)
GenerationsNatural == Mode = "generation" => \A i \in 1..Len(Listing) : Gens[Listing[i]] >= 1 /\
                          (i > 1 => Gens[Listing[i - 1]] < Gens[Listing[i]])

\* a committed generation is a natural number from one, a key that was not there (nothing is replaced) and the new maximum
Committed == put # 0
GenNumbers == [i \in 1..Len(Listing) |-> Gens[Listing[i]]]
ListingAfter == IF Committed THEN Append(GenNumbers, put) ELSE GenNumbers            \* as generation numbers
CommitIsNatural == Committed => put >= 1
CommitIsNew == Committed => \A d \in dirs : Accepted(d) => Gens[d.v] # put
CommitIsLatest == Committed => /\ \A d \in dirs : Accepted(d) => Gens[d.v] < put
                               /\ \A i \in 1..(Len(ListingAfter) - 1) : ListingAfter[i] < ListingAfter[i + 1]
CommitIsSuccessor == Committed => put = (IF Listing = <<>> THEN 1 ELSE Gens[Listing[Len(Listing)]] + 1)

\* a reported name that is no key is rejected by leaving it out or by refusing the report
MayReject == form # "key" /\ \E d \in dirs : ~Accepted(d)
\* the requirement does not depend on the form of the report: levels with the same entries list the same
FormIrrelevant == listing = Sorted(KeysOf(dirs))

\* exports: the lattice with the full comparison matrix once, the expected listing of every level state
SetToSeq(S) == LET RECURSIVE F(_) F(T) == IF T = {} THEN <<>> ELSE LET x == CHOOSE y \in T : TRUE IN <<x>> \o F(T \ {x}) IN F(S)
Lattice == [mode |-> Mode,
            keys |-> IF Mode = "release" THEN [i \in VIdx |-> [ver |-> Versions[i], gen |-> 0, valid |-> TRUE, canon |-> Canon(i)]]
                     ELSE [i \in VIdx |-> [ver |-> Ver(0, <<>>, 0, 0, None, None, NoLoc), gen |-> Gens[i], valid |-> ValidIdx(i), canon |-> Canon(i)]],
            cmp |-> [i \in VIdx |-> [j \in VIdx |-> Cmp(i, j)]]]
Export == /\ (dirs = {} /\ put = 0 /\ form = (CHOOSE f \in Forms : TRUE) => PrintT(ToJson([lattice |-> Lattice])))
          /\ PrintT(ToJson([dirs |-> SetToSeq(dirs), listing |-> Listing, latest |-> Latest, put |-> put, form |-> form, mayreject |-> MayReject,
                            after |-> IF Mode = "generation" THEN ListingAfter ELSE <<>>]))
=============================================================================
