-------------------------- MODULE TraceNegotiation --------------------------
(***************************************************************************)
(* C19, code -> spec.  Validates observations recorded from the real       *)
(* forml.io.layout / forml.application.Generic against Negotiation.tla.    *)
(*                                                                         *)
(* One trace = one header: its ranges are replayed through the AddRange    *)
(* action of Negotiation (Read), then Judge compares what the code did     *)
(* with the requirement, clause by clause, into `flags`:                   *)
(*   1 parse    Encoding.parse(header) = encodings in preference order     *)
(*   2 encoder  get_encoder(parsed...).encoding in EncoderSet / Unsupported  *)
(*              (or, zero-weighted ranges read as "not acceptable", in     *)
(*              EncoderSetZ / Unsupported - differs only when no positive   *)
(*              range is supported)                                        *)
(*   3 decoder  get_decoder(parsed[0]) in DecoderSet / Unsupported         *)
(*   4 respond  Generic.respond payload encoding like 2                    *)
(*   5 receive  Generic.receive raises Unsupported iff DecoderSet = {}     *)
(*   6, 7       encoder / decoder equal to the as-is model (drift only)    *)
(* Batch.matches: (pattern, concrete, observed Encoding.match) triples.    *)
(* Batch.tables: codec round trips (cells dictionary-encoded), auxiliary.  *)
(* Batch.requests: served requests [ct, accept, reply, receive]: content    *)
(*   type of the payload, Accept header (ranges in header order, <<>> =    *)
(*   none), encoding of the response produced over request.accept, outcome *)
(*   of Generic.receive - judged by ReplySet / DecoderSet of Negotiation   *)
(*   (the Accept header is put into preference order by Parsed).           *)
(***************************************************************************)
EXTENDS Negotiation, IOUtils, TLCExt
Batch == JsonDeserialize(IOEnv.TRACE_FILE)
VARIABLES tid, l, flags
tvars == <<hdr, pref, tid, l, flags>>
NT == Len(Batch.traces)
Tr == Batch.traces[tid]
ToSet(s) == {s[i] : i \in 1..Len(s)}
InEnc(e) == Enc(e.t, e.s, ToSet(e.opts))
InRange(r) == [t |-> r.t, s |-> r.s, opts |-> ToSet(r.opts), q |-> r.q]
\* outcome encodings of the observations: an encoding, or one of these two
Unsupported == Enc("!", "unsupported", {})      \* layout.Encoding.Unsupported was raised
\* decoder / receive codes
DecUnsupported == 0
NotObserved == 99
B(x) == IF x THEN 1 ELSE 0

TInit == tid \in 1..NT /\ l = 1 /\ flags = <<>> /\ Init
Read == /\ l <= Len(Tr.hdr)
        /\ AddRange(InRange(Tr.hdr[l]))
        /\ l' = l + 1 /\ UNCHANGED <<tid, flags>>
\* S = the allowed encoders (EncoderSet), I = the as-is choice (ImplEncoder, 0 = none)
EncOk(S, o) == IF S = {} THEN o = Unsupported ELSE \E e \in S : Encoders[e] = o
EncImpl(I, o) == o = (IF I = 0 THEN Unsupported ELSE Encoders[I])
Judge == /\ l = Len(Tr.hdr) + 1 /\ N > 0
         /\ LET S == EncoderSet(Mine)            \* (each evaluated once per header)
                Z == IF NPos = N THEN S ELSE EncoderSetZ(hdr)
                I == ImplEncoder(Mine)
                D == DecoderSet(Mine[1])
            IN flags' = <<
              B(Len(Tr.parsed) = N /\ \A p \in 1..N : InEnc(Tr.parsed[p]) = Mine[p]),
              B(EncOk(S, InEnc(Tr.enc)) \/ EncOk(Z, InEnc(Tr.enc))),
              B(Tr.dec = NotObserved \/ ~Concrete(Mine[1]) \/
                  (IF D = {} THEN Tr.dec = DecUnsupported ELSE Tr.dec \in D)),
              B(Tr.respond.t = "-" \/ EncOk(S, InEnc(Tr.respond)) \/ EncOk(Z, InEnc(Tr.respond))),
              B(Tr.receive = NotObserved \/ ~Concrete(Mine[1]) \/
                  ((D = {}) <=> (Tr.receive = DecUnsupported))),
              B(EncImpl(I, InEnc(Tr.enc))),
              B(Tr.dec = NotObserved \/ ~Concrete(Mine[1]) \/ Tr.dec = ImplDecoder(Mine[1])) >>
         /\ l' = l + 1 /\ UNCHANGED <<tid, hdr, pref>>
TNext == Read \/ Judge
TSpec == TInit /\ [][TNext]_tvars

\* ---- served requests (pure input -> output observations)
InHeader(h) == [i \in 1..Len(h) |-> InRange(h[i])]
ReplyOk(r, strict) ==        \* strict: also without an Accept header (as-is default: the encoding of the request)
    LET h == InHeader(r.accept)
        S == ReplySet(InEnc(r.ct), Parsed(h))
        Z == IF Positive(h) = h THEN S ELSE ReplySetZ(InEnc(r.ct), h)     \* q=0 read as "not acceptable"
        o == InEnc(r.reply)
    IN (~strict /\ Len(r.accept) = 0) \/ EncOk(S, o) \/ EncOk(Z, o)
ReceiveOk(r) ==              \* 0 = Unsupported, 1 = decoded, 2 = a decoder was found but could not read the payload
    \/ r.receive = NotObserved
    \/ /\ r.receive \in {0, 1, 2}
       /\ ~Concrete(InEnc(r.ct)) \/ ((DecoderSet(InEnc(r.ct)) = {}) <=> (r.receive = DecUnsupported))

Track == TLCSet(tid, IF TLCGet(tid)[1] < l THEN <<l>> \o flags ELSE TLCGet(tid))
ASSUME \A i \in 1..NT : TLCSet(i, <<0>>)
Post == /\ \A i \in 1..NT : PrintT(<<"VERDICT", i, Len(Batch.traces[i].hdr) + 2, TLCGet(i)>>)
        /\ \A i \in 1..Len(Batch.matches) :
              LET m == Batch.matches[i] IN PrintT(<<"MATCH", i, Match(InEnc(m.p), InEnc(m.c)), m.m>>)
        /\ \A i \in 1..Len(Batch.tables) :
              LET x == Batch.tables[i] IN PrintT(<<"TABLE", i, x.src = x.out>>)
        /\ \A i \in 1..Len(Batch.requests) :
              LET r == Batch.requests[i] IN PrintT(<<"REQUEST", i, B(ReplyOk(r, FALSE)), B(ReceiveOk(r)), B(ReplyOk(r, TRUE))>>)
=============================================================================
