-------------------------- MODULE TraceNegotiation --------------------------
(***************************************************************************)
(* C19, code -> spec.  Validates observations recorded from the real       *)
(* forml.io.layout / forml.application.Generic against Negotiation.tla.    *)
(*                                                                         *)
(* One trace = one header: its ranges are replayed through the AddRange    *)
(* action of Negotiation (Read), then Judge compares what the code did     *)
(* with the requirement, clause by clause, into `flags`:                   *)
(*   1 parse    Encoding.parse(header) = encodings in preference order     *)
(*   2 encoder  get_encoder(parsed...).encoding in EncoderSet / Unsupported  *)
(*   3 decoder  get_decoder(parsed[0]) in DecoderSet / Unsupported         *)
(*   4 respond  Generic.respond payload encoding like 2                    *)
(*   5 receive  Generic.receive raises Unsupported iff DecoderSet = {}     *)
(*   6, 7       encoder / decoder equal to the as-is model (drift only)    *)
(* Batch.matches: (pattern, concrete, observed Encoding.match) triples.    *)
(* Batch.tables: codec round trips (cells dictionary-encoded), auxiliary.  *)
(***************************************************************************)
EXTENDS Negotiation, IOUtils, TLCExt
Batch == JsonDeserialize(IOEnv.TRACE_FILE)
VARIABLES tid, l, flags
tvars == <<hdr, pref, tid, l, flags>>
NT == Len(Batch.traces)
Tr == Batch.traces[tid]
ToSet(s) == {s[i] : i \in 1..Len(s)}
InEnc(e) == Enc(e.t, e.s, ToSet(e.opts))
InRange(r) == [t |-> r.t, s |-> r.s, opts |-> ToSet(r.opts), q |-> r.q]
\* outcome encodings of the observations: an encoding, or one of these two
Unsupported == Enc("!", "unsupported", {})      \* layout.Encoding.Unsupported was raised
\* decoder / receive codes
DecUnsupported == 0
NotObserved == 99
B(x) == IF x THEN 1 ELSE 0

TInit == tid \in 1..NT /\ l = 1 /\ flags = <<>> /\ Init
Read == /\ l <= Len(Tr.hdr)
        /\ AddRange(InRange(Tr.hdr[l]))
        /\ l' = l + 1 /\ UNCHANGED <<tid, flags>>
EncOk(o) == LET S == EncoderSet(Mine) IN IF S = {} THEN o = Unsupported ELSE \E e \in S : Encoders[e] = o
EncImpl(o) == o = (IF ImplEncoder(Mine) = 0 THEN Unsupported ELSE Encoders[ImplEncoder(Mine)])
Judge == /\ l = Len(Tr.hdr) + 1 /\ N > 0
         /\ flags' = <<
              B(Len(Tr.parsed) = N /\ \A p \in 1..N : InEnc(Tr.parsed[p]) = Mine[p]),
              B(EncOk(InEnc(Tr.enc))),
              B(Tr.dec = NotObserved \/ ~Concrete(Mine[1]) \/
                  (IF DecoderSet(Mine[1]) = {} THEN Tr.dec = DecUnsupported ELSE Tr.dec \in DecoderSet(Mine[1]))),
              B(Tr.respond.t = "-" \/ EncOk(InEnc(Tr.respond))),
              B(Tr.receive = NotObserved \/ ~Concrete(Mine[1]) \/
                  ((DecoderSet(Mine[1]) = {}) <=> (Tr.receive = DecUnsupported))),
              B(EncImpl(InEnc(Tr.enc))),
              B(Tr.dec = NotObserved \/ ~Concrete(Mine[1]) \/ Tr.dec = ImplDecoder(Mine[1])) >>
         /\ l' = l + 1 /\ UNCHANGED <<tid, hdr, pref>>
TNext == Read \/ Judge
TSpec == TInit /\ [][TNext]_tvars

Track == TLCSet(tid, IF TLCGet(tid)[1] < l THEN <<l>> \o flags ELSE TLCGet(tid))
ASSUME \A i \in 1..NT : TLCSet(i, <<0>>)
Post == /\ \A i \in 1..NT : PrintT(<<"VERDICT", i, Len(Batch.traces[i].hdr) + 2, TLCGet(i)>>)
        /\ \A i \in 1..Len(Batch.matches) :
              LET m == Batch.matches[i] IN PrintT(<<"MATCH", i, Match(InEnc(m.p), InEnc(m.c)), m.m>>)
        /\ \A i \in 1..Len(Batch.tables) :
              LET x == Batch.tables[i] IN PrintT(<<"TABLE", i, x.src = x.out>>)
=============================================================================
