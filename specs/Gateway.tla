------------------------------ MODULE Gateway ------------------------------
(***************************************************************************)
(* The HTTP front of the serving engine (forml/provider/gateway/rest.py    *)
(* Apply route on top of runtime Engine.apply) - extends C16 (responses    *)
(* are never crossed / lost / duplicated, a failing request fails alone)   *)
(* and C19 (the negotiated encodings) to the outermost interface a client  *)
(* talks to.                                                               *)
(*                                                                         *)
(* A client request r = [app, ctype, accept, body, fault] goes through     *)
(*   Send(r)      the client writes the request                            *)
(*   Handle(r)    the route derives the engine-level request: encoding =   *)
(*                the MOST PREFERRED range of the Content-Type header      *)
(*                (application/octet-stream when absent), accept = the     *)
(*                Accept header in preference order (the request encoding  *)
(*                when absent) and calls the engine handler                *)
(*   Return(r,o)  the handler returns / raises: outcome o                  *)
(*   Respond(r)   the route turns the outcome into the HTTP response       *)
(* Requests are handled concurrently: the four steps of different requests *)
(* interleave freely.                                                      *)
(*                                                                         *)
(* The negotiation operators are those of Negotiation.tla (C19).           *)
(***************************************************************************)
EXTENDS Integers, Sequences, FiniteSets, TLC
CONSTANTS Reqs,      \* sequence of client requests [app, ctype, accept, body, fault]
          Apps       \* function application name -> [inst, stamp] of the model instance it selects
VARIABLES phase, call, outcome, resp
vars == <<phase, call, outcome, resp>>

Neg == INSTANCE Negotiation WITH hdr <- <<>>, pref <- <<>>, MaxLen <- 0, Kinds <- {}, OptSets <- {}, Qs <- {},
                                 Rule <- "pattern-outer", ExportFrom <- 0

R == 1..Len(Reqs)
None == [none |-> TRUE]
OctetStream == Neg!Enc("application", "octet-stream", {})
Faults == {"none", "nofeature", "renamed", "poison"}   \* body level faults (a column the model needs is missing or comes under another name / the model refuses)

(************************ derivation of the engine request ******************)
(* operators over an explicit request record q / application table apps so  *)
(* that TraceGateway.tla can apply them to every recorded run               *)
EncodingOfQ(q) == IF q.ctype = <<>> THEN OctetStream ELSE Neg!Parsed(q.ctype)[1]
AcceptOfQ(q) == IF q.accept = <<>> THEN <<EncodingOfQ(q)>> ELSE Neg!Parsed(q.accept)
DerivedQ(q) == [app |-> q.app, enc |-> EncodingOfQ(q), accept |-> AcceptOfQ(q), body |-> q.body]

(***************************** engine outcomes ******************************)
Decodable(c) == Neg!Concrete(c) /\ Neg!DecoderSet(c) # {}
Encodable(ps) == Neg!EncoderSet(ps) # {}
\* the error kinds a request may legitimately end with (several faults -> any of them)
ErrKindsQ(c, apps) ==
    (IF c.app \notin DOMAIN apps THEN {"missing"} ELSE {})
    \cup (IF ~Decodable(c.enc) THEN {"unsupported"} ELSE {})
    \cup (IF ~Encodable(c.accept) THEN {"unsupported"} ELSE {})
FaultKindsQ(q) == IF q.fault = "none" THEN {} ELSE {"missing", "invalid", "failed"}
\* the value the selected model instance computes from the body: the pair identifies both
ComputedQ(c, apps) == <<c.body, apps[c.app].stamp>>
OutcomesQ(q, c, apps) ==
    \* which error wins when several apply is the order of the engine's pipeline (decode, model, encode): any of them
    LET errs == ErrKindsQ(c, apps) \cup (IF c.app \in DOMAIN apps /\ Decodable(c.enc) THEN FaultKindsQ(q) ELSE {})
    IN IF errs # {} THEN {[kind |-> k, enc |-> None, inst |-> None, data |-> None] : k \in errs}
       ELSE {[kind |-> "ok", enc |-> Neg!Encoders[e], inst |-> apps[c.app].inst, data |-> ComputedQ(c, apps)] :
                e \in Neg!EncoderSet(c.accept)}
HealthyQ(q, apps) == /\ q.app \in DOMAIN apps
                     /\ Decodable(EncodingOfQ(q))
                     /\ Encodable(AcceptOfQ(q))
                     /\ q.fault = "none"

(***************************** the HTTP response ****************************)
Status(kind) == CASE kind = "ok" -> 200 [] kind = "unsupported" -> 415 [] kind = "missing" -> 404
                  [] kind = "invalid" -> 400 [] kind = "failed" -> 500
ResponseOf(o) == [status |-> Status(o.kind), mtype |-> o.enc, inst |-> o.inst, data |-> o.data]

EncodingOf(r) == EncodingOfQ(Reqs[r])
AcceptOf(r) == AcceptOfQ(Reqs[r])
Derived(r) == DerivedQ(Reqs[r])
Outcomes(r, c) == OutcomesQ(Reqs[r], c, Apps)
Healthy(r) == HealthyQ(Reqs[r], Apps)

(******************************** behaviours ********************************)
Init == /\ phase = [r \in R |-> "new"]
        /\ call = [r \in R |-> None]
        /\ outcome = [r \in R |-> None]
        /\ resp = [r \in R |-> None]
Send(r) == phase[r] = "new" /\ phase' = [phase EXCEPT ![r] = "sent"] /\ UNCHANGED <<call, outcome, resp>>
Handle(r) == /\ phase[r] = "sent"
             /\ phase' = [phase EXCEPT ![r] = "handling"]
             /\ call' = [call EXCEPT ![r] = Derived(r)]
             /\ UNCHANGED <<outcome, resp>>
Return(r) == /\ phase[r] = "handling"
             /\ \E o \in Outcomes(r, call[r]) : outcome' = [outcome EXCEPT ![r] = o]
             /\ phase' = [phase EXCEPT ![r] = "returned"]
             /\ UNCHANGED <<call, resp>>
Respond(r) == /\ phase[r] = "returned"
              /\ resp' = [resp EXCEPT ![r] = ResponseOf(outcome[r])]
              /\ phase' = [phase EXCEPT ![r] = "answered"]
              /\ UNCHANGED <<call, outcome>>
SendAny == \E r \in R : Send(r)
HandleAny == \E r \in R : Handle(r)
ReturnAny == \E r \in R : Return(r)
RespondAny == \E r \in R : Respond(r)
Next == SendAny \/ HandleAny \/ ReturnAny \/ RespondAny
Spec == Init /\ [][Next]_vars /\ WF_vars(Next)

(******************************** properties ********************************)
\* a healthy request is answered 200 with the value its OWN body yields on the instance its OWN application selects,
\* whatever the other requests are (fail alone + no crossing), in an encoding the client's most preferred supported range matches
OwnAnswer == \A r \in R : phase[r] = "answered" /\ Healthy(r) =>
                /\ resp[r].status = 200
                /\ resp[r].data = <<Reqs[r].body, Apps[Reqs[r].app].stamp>>
                /\ resp[r].inst = Apps[Reqs[r].app].inst
                /\ \E p \in 1..Len(AcceptOf(r)) :
                      /\ Neg!Match(AcceptOf(r)[p], resp[r].mtype)
                      /\ \A q \in 1..(p - 1), e \in 1..Len(Neg!Encoders) : ~Neg!Match(AcceptOf(r)[q], Neg!Encoders[e])
\* an unhealthy request is refused with a client / server error of the documented class and carries no data
Refused == \A r \in R : phase[r] = "answered" /\ ~Healthy(r) =>
                /\ resp[r].status \in {400, 404, 415, 500}
                /\ resp[r].data = None
                /\ (Reqs[r].app \notin DOMAIN Apps /\ Decodable(EncodingOf(r)) /\ Encodable(AcceptOf(r))) => resp[r].status = 404
                /\ (Reqs[r].app \in DOMAIN Apps /\ Reqs[r].fault = "none" /\ (~Decodable(EncodingOf(r)) \/ ~Encodable(AcceptOf(r))))
                      => resp[r].status = 415
                /\ (Reqs[r].app \in DOMAIN Apps /\ ~Decodable(EncodingOf(r))) => resp[r].status = 415
\* the declared content type is the client's most preferred range (highest quality, the earliest among equals),
\* not merely the first one written
MostPreferredContentType == \A r \in R : call[r] # None /\ Reqs[r].ctype # <<>> =>
    \E i \in 1..Len(Reqs[r].ctype) :
        /\ call[r].enc = Neg!Strip(Reqs[r].ctype[i])
        /\ \A j \in 1..Len(Reqs[r].ctype) :
              \/ Neg!W(Reqs[r].ctype[j]) < Neg!W(Reqs[r].ctype[i])
              \/ (Neg!W(Reqs[r].ctype[j]) = Neg!W(Reqs[r].ctype[i]) /\ j >= i)
AllAnswered == <>(\A r \in R : phase[r] = "answered")
=============================================================================
