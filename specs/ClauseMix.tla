------------------------------ MODULE ClauseMix ------------------------------
(***************************************************************************)
(* C06 / C14 - the clauses of an aggregating query in EVERY combination of *)
(* presence.  The documented grammar makes each clause of a query optional *)
(* on its own: where, groupby, having, orderby, limit.  The hand written   *)
(* generators couple some of them (a having clause only ever came with a   *)
(* groupby); here TLC enumerates the product                               *)
(*   origin {table, inner join, left join} x where {-, +} x groupby {-, +} *)
(*   x having {-, on count, on sum of a column used nowhere else}          *)
(*   x orderby/limit {-, order, order + limit}                             *)
(* over the catalog tables of harness.dslgen, plus each un-ordered query   *)
(* as a nested statement (the origin, through a reference, of an outer     *)
(* query).  Without a groupby the whole pre-filtered input is ONE group    *)
(* (RelAlg.tla Cand: Grouped(q) by the aggregates), to which having        *)
(* applies like to any other group.                                        *)
(* Every statement is WellFormed (invariant FamilyWellFormed); every one   *)
(* is exported once (invariant Export) and joins the statement stream of   *)
(* the drivers: parsed by the real parser, executed on the engines and      *)
(* judged by TraceReads.tla (C06); hints recorded and judged by            *)
(* TraceHints.tla (C14).                                                   *)
(***************************************************************************)
EXTENDS DslAst, Json, TLCExt

Cols3 == <<<<"i", "int">>, <<"s", "str">>, <<"k", "int">>>>
Tab(n) == Src("table", n, "", Cols3, NilS, NilS, NilF, <<>>, NilF, <<>>, NilF, <<>>, <<>>)
TB == Tab("B")
TC == Tab("C")
Lit(v) == Feat("lit", NilS, "", "int", v, "", <<>>)
Agg(op, x) == Feat("agg", NilS, "", "", "", op, <<x>>)
As(x, n) == Feat("alias", NilS, n, "", "", "", <<x>>)
Bi == Col(TB, "i")  Bk == Col(TB, "k")  Ci == Col(TC, "i")  Ck == Col(TC, "k")

Origins == {TB, JoinOf(TB, TC, "inner", Op("eq", <<Bi, Ci>>)), JoinOf(TB, TC, "left", Op("le", <<Bi, Ci>>))}
\* the column only the having clause (and nothing else of the query context) uses: k of the last table of the origin
Spare(o) == IF o.t = "join" THEN Ck ELSE Bk
Wheres == {NilF, Op("gt", <<Bi, Lit("1")>>)}
Groups == {<<>>, <<Bi>>}
Havings(o) == {NilF, Op("ge", <<Agg("count", Bi), Lit("2")>>), Op("gt", <<Agg("sum", Spare(o)), Lit("4")>>)}
Sel(grp) == (IF grp = <<>> THEN <<>> ELSE <<As(Bi, "g")>>) \o <<As(Agg("count", Bi), "n")>>
ByCount == <<[x |-> Agg("count", Bi), dir |-> "descending"]>>
Windows == {<<<<>>, <<>>>>, <<ByCount, <<>>>>, <<ByCount, <<1, 0>>>>}      \* <<ordering, rows>>

Flat == {QueryOf(o, Sel(grp), w, grp, h, ow[1], ow[2]) :
            o \in Origins, w \in Wheres, grp \in Groups, h \in UNION {Havings(x) : x \in Origins}, ow \in Windows}
InFamily(q) == q.having \in Havings(q.l)
Plain == {q \in Flat : InFamily(q)}
\* an un-ordered member as a nested statement: the outer query selects the aggregate output of its reference
Outer(r) == QueryOf(r, <<Col(r, "n")>>, NilF, <<>>, NilF, <<>>, <<>>)
Nested == {Outer(RefOf(q, "q")) : q \in {p \in Plain : p.order = <<>> /\ p.rows = <<>>}}
Stmts == Plain \cup Nested

VARIABLE stmt
Init == stmt \in Stmts
Next == UNCHANGED stmt
Spec == Init /\ [][Next]_stmt

FamilyWellFormed == WellFormed(stmt)
\* the point of the family: having occurs without and with a grouping, flat and nested
Inner(s) == IF s.l.t = "ref" THEN s.l.l ELSE s
Mixed == \A grouped \in BOOLEAN, nested \in BOOLEAN :
            \E s \in Stmts : /\ (s.l.t = "ref") = nested
                             /\ (Inner(s).group # <<>>) = grouped
                             /\ Inner(s).having.f # "nil"
ASSUME Mixed
Export == PrintT(ToJson([ast |-> stmt]))
Post == PrintT(<<"CLAUSEMIX", Cardinality(Stmts), TLCGet("distinct")>>)
=============================================================================
