--------------------------- MODULE DescriptorCache ---------------------------
(***************************************************************************)
(* C16 (finer grain of the Extract stage).  The dispatcher resolves the    *)
(* application descriptor on a THREAD POOL: several first requests may run *)
(* the lookup concurrently over the shared cache `known` (application ->    *)
(* descriptor or None).  Steps of one lookup, as the code performs them:    *)
(*   Check    application in known?  (yes -> Fetch)                          *)
(*   List     all := inventory.list()                                        *)
(*   Diff     updates := all \ known                 (reads `known` again)   *)
(*   Update   known := known + updates                                       *)
(*   Decide   Variant "updates": application in updates ? Fetch : MISSING    *)
(*            Variant "known"  : application in known   ? Fetch : MISSING    *)
(*   Fetch    known[application] := inventory.get(application); answer it    *)
(* Requirement: a lookup of an application the inventory holds never        *)
(* answers MISSING, whatever the interleaving; an unknown one always does.  *)
(***************************************************************************)
EXTENDS Naturals, FiniteSets, TLC
CONSTANTS Threads, Inventory, Wanted, Variant   \* Wanted: thread -> application
VARIABLES known, pc, all, updates, answer
vars == <<known, pc, all, updates, answer>>
Init == /\ known = {} /\ pc = [t \in Threads |-> "check"] /\ all = [t \in Threads |-> {}]
        /\ updates = [t \in Threads |-> {}] /\ answer = [t \in Threads |-> "none"]
Check(t) == /\ pc[t] = "check" /\ pc' = [pc EXCEPT ![t] = IF Wanted[t] \in known THEN "fetch" ELSE "list"]
            /\ UNCHANGED <<known, all, updates, answer>>
List(t) == /\ pc[t] = "list" /\ all' = [all EXCEPT ![t] = Inventory] /\ pc' = [pc EXCEPT ![t] = "diff"]
           /\ UNCHANGED <<known, updates, answer>>
Diff(t) == /\ pc[t] = "diff" /\ updates' = [updates EXCEPT ![t] = all[t] \ known] /\ pc' = [pc EXCEPT ![t] = "update"]
           /\ UNCHANGED <<known, all, answer>>
Update(t) == /\ pc[t] = "update" /\ known' = known \cup updates[t] /\ pc' = [pc EXCEPT ![t] = "decide"]
             /\ UNCHANGED <<all, updates, answer>>
Decide(t) == /\ pc[t] = "decide"
             /\ LET found == IF Variant = "updates" THEN Wanted[t] \in updates[t] ELSE Wanted[t] \in known IN
                  IF found THEN pc' = [pc EXCEPT ![t] = "fetch"] /\ UNCHANGED answer
                           ELSE pc' = [pc EXCEPT ![t] = "done"] /\ answer' = [answer EXCEPT ![t] = "missing"]
             /\ UNCHANGED <<known, all, updates>>
Fetch(t) == /\ pc[t] = "fetch" /\ answer' = [answer EXCEPT ![t] = "descriptor"] /\ pc' = [pc EXCEPT ![t] = "done"]
            /\ UNCHANGED <<known, all, updates>>
Next == \E t \in Threads : Check(t) \/ List(t) \/ Diff(t) \/ Update(t) \/ Decide(t) \/ Fetch(t)
Spec == Init /\ [][Next]_vars
ValidNeverMissing == \A t \in Threads : (Wanted[t] \in Inventory) => answer[t] # "missing"
UnknownNeverServed == \A t \in Threads : (Wanted[t] \notin Inventory) => answer[t] # "descriptor"
W2 == [t \in {1, 2} |-> "app"]
W3 == [t \in {1, 2, 3} |-> IF t = 3 THEN "nope" ELSE "app"]
=============================================================================
