------------------------------ MODULE Serving ------------------------------
(***************************************************************************)
(* C16 - concurrent serving never crosses, loses or duplicates responses.  *)
(* Structure follows forml/runtime/_service: per request                    *)
(*   Extract  (thread pool: descriptor lookup, decode, model selection)     *)
(*   Deal     (event loop: executor of the selected instance, task id :=    *)
(*             index++, pending[id] := future, task queue put)              *)
(*   Take / Done (forked workers of that instance: any idle worker takes    *)
(*             the head of the FIFO task queue, computes, puts the result   *)
(*             tagged with the task id; a platform error is a result too)   *)
(*   Resolve  (executor thread: result queue get, pending[id] resolved)     *)
(*   Respond  (process pool: encode; back to the caller)                    *)
(* Requests in UnkReq name an unknown application, BadReq carry an          *)
(* unsupported encoding (both fail in Extract), MissReq lack features (the  *)
(* worker reports a platform error).                                        *)
(***************************************************************************)
EXTENDS Naturals, Sequences, FiniteSets, TLC
CONSTANTS NReq, NWorkers, Apps, BadReq, MissReq, UnkReq
\* Apps: function request -> application (1..2); instance(app) = app (explicit selector)
\* BadReq: requests with unsupported encoding (fail at Extract); MissReq: missing features (platform error in worker)
Req == 1..NReq
Inst == {Apps[r] : r \in Req}
Failing == BadReq \cup MissReq \cup UnkReq
W == 1..NWorkers

VARIABLES st,        \* request stage: "new","extracted","dealt","responding","done","failed"
          execUp,    \* set of instances with a running executor
          idx,       \* per instance next task id
          pending,   \* per instance: task id -> request  (function as set of pairs)
          taskQ,     \* per instance FIFO of [id, payload]
          resQ,      \* per instance FIFO of [id, out, err]
          wk,        \* per instance, per worker: <<>> or <<task>>
          resolved,  \* request -> outcome record or <<>>
          delivered, \* request -> what client got: <<>> | <<[ok, val]>>
          answers    \* request -> number of answers the client received
vars == <<st, execUp, idx, pending, taskQ, resQ, wk, resolved, delivered, answers>>

F(i, r) == <<i, r>>   \* outcome computed by instance i from payload of request r

Init == /\ st = [r \in Req |-> "new"]
        /\ execUp = {}
        /\ idx = [i \in Inst |-> 0]
        /\ pending = [i \in Inst |-> {}]
        /\ taskQ = [i \in Inst |-> <<>>]
        /\ resQ = [i \in Inst |-> <<>>]
        /\ wk = [i \in Inst |-> [w \in W |-> <<>>]]
        /\ resolved = [r \in Req |-> <<>>]
        /\ delivered = [r \in Req |-> <<>>]
        /\ answers = [r \in Req |-> 0]

\* thread pool: descriptor + decode + select
Extract(r) == /\ st[r] = "new"
              /\ IF r \in BadReq \cup UnkReq
                 THEN /\ st' = [st EXCEPT ![r] = "failed"]
                      /\ delivered' = [delivered EXCEPT ![r] = <<[ok |-> FALSE, val |-> <<0, r>>]>>]
                      /\ answers' = [answers EXCEPT ![r] = @ + 1]
                 ELSE /\ st' = [st EXCEPT ![r] = "extracted"] /\ UNCHANGED <<delivered, answers>>
              /\ UNCHANGED <<execUp, idx, pending, taskQ, resQ, wk, resolved>>

\* event loop: Dealer.__call__ + Executor.apply (atomic w.r.t. other Deal steps: single loop thread)
Deal(r) == LET i == Apps[r] IN
           /\ st[r] = "extracted"
           /\ execUp' = execUp \cup {i}
           /\ pending' = [pending EXCEPT ![i] = @ \cup {<<idx[i], r>>}]
           /\ taskQ' = [taskQ EXCEPT ![i] = Append(@, [id |-> idx[i], pl |-> r])]
           /\ idx' = [idx EXCEPT ![i] = @ + 1]
           /\ st' = [st EXCEPT ![r] = "dealt"]
           /\ UNCHANGED <<resQ, wk, resolved, delivered, answers>>

Take(i, w) == /\ i \in execUp /\ wk[i][w] = <<>> /\ taskQ[i] # <<>>
              /\ wk' = [wk EXCEPT ![i][w] = <<Head(taskQ[i])>>]
              /\ taskQ' = [taskQ EXCEPT ![i] = Tail(@)]
              /\ UNCHANGED <<st, execUp, idx, pending, resQ, resolved, delivered, answers>>

Done(i, w) == /\ wk[i][w] # <<>>
              /\ LET t == wk[i][w][1] IN
                 resQ' = [resQ EXCEPT ![i] = Append(@, [id |-> t.id, out |-> F(i, t.pl), err |-> t.pl \in MissReq])]
              /\ wk' = [wk EXCEPT ![i][w] = <<>>]
              /\ UNCHANGED <<st, execUp, idx, pending, taskQ, resolved, delivered, answers>>

\* executor thread
Resolve(i) == /\ resQ[i] # <<>>
              /\ LET res == Head(resQ[i])
                     r == CHOOSE q \in Req : <<res.id, q>> \in pending[i] IN
                 /\ resolved' = [resolved EXCEPT ![r] = <<[ok |-> ~res.err, val |-> res.out]>>]
                 /\ pending' = [pending EXCEPT ![i] = @ \ {<<res.id, r>>}]
              /\ resQ' = [resQ EXCEPT ![i] = Tail(@)]
              /\ UNCHANGED <<st, execUp, idx, taskQ, wk, delivered, answers>>

\* back on the loop: await outcome, then respond (process pool)
Respond(r) == /\ st[r] = "dealt" /\ resolved[r] # <<>>
              /\ delivered' = [delivered EXCEPT ![r] = resolved[r]]
              /\ answers' = [answers EXCEPT ![r] = @ + 1]
              /\ st' = [st EXCEPT ![r] = IF resolved[r][1].ok THEN "done" ELSE "failed"]
              /\ UNCHANGED <<execUp, idx, pending, taskQ, resQ, wk, resolved>>

Next == \/ \E r \in Req : Extract(r) \/ Deal(r) \/ Respond(r)
        \/ \E i \in Inst : Resolve(i) \/ \E w \in W : Take(i, w) \/ Done(i, w)
Spec == Init /\ [][Next]_vars /\ WF_vars(Next)

NoCross == \A r \in Req : delivered[r] # <<>> /\ delivered[r][1].ok => delivered[r][1].val = F(Apps[r], r)
FailAlone == \A r \in Req : (st[r] = "failed") => (r \in Failing)
AllAnswered == <>(\A r \in Req : st[r] \in {"done", "failed"})
Good == \A r \in Req : st[r] = "done" => r \notin Failing
AtMostOnce == \A r \in Req : answers[r] <= 1
\* task ids are unique per executor while pending, so a result is always routed to the request that produced it
UniqueIds == \A i \in Inst : \A p, q \in pending[i] : p[1] = q[1] => p = q
TypeOK == \A i \in Inst : idx[i] \in Nat /\ Len(taskQ[i]) <= NReq
Apps4 == <<1, 2, 1, 2>>
Apps5 == <<1, 2, 1, 2, 1>>
Apps6 == <<1, 2, 1, 2, 1, 1>>
Apps7 == <<1, 2, 3, 1, 2, 3, 1>>
=============================================================================
