------------------------------ MODULE Identity ------------------------------
(***************************************************************************)
(* C08.  Mappings and caches keyed by DSL objects.                         *)
(*                                                                         *)
(* Objects are <<structure, copy>>: the same structure built independently *)
(* several times.  A dictionary (Put / Get) and a memoising cache (Call,   *)
(* the shape of functools.lru_cache around Reader._parse_statement) decide *)
(* whether two keys are "the same key" with a relation KeyEq - for python  *)
(* objects that is __hash__ + __eq__.  KeyEq is a parameter of the         *)
(* machine: Rels enumerates EVERY symmetric relation over the objects      *)
(* (an object is always the same key as itself).                           *)
(*                                                                         *)
(* Requirement (per observation of a Get / Call on key k):                 *)
(*   NoConfusion     the answer is never something stored / computed for a *)
(*                   structurally different key                            *)
(*   Interchangeable once something was stored / computed under a          *)
(*                   structurally equal key, k finds it (no miss, no       *)
(*                   recomputation)                                        *)
(* TLC establishes: both hold in every reachable state  IFF  KeyEq is      *)
(* structural equality (Post).  Hence the property reduces to measuring    *)
(* the implementation's KeyEq on pairs of objects (TraceIdentity.tla).     *)
(***************************************************************************)
EXTENDS Integers, Sequences, FiniteSets, TLC, Json
CONSTANTS Structs,   \* structurally different statements, e.g. {"s1", "s2"}
          Copies,    \* independently built copies of each, e.g. {1, 2}
          Depth,     \* number of operations
          Mode,      \* "all": every relation; "structural": only structural equality (the requirement)
          Ops        \* subset of {"put", "get", "call"}
Obj == Structs \X Copies
Struct(o) == o[1]
Denote(o) == Struct(o)                \* what is stored / computed for a key: a function of its structure only
Pairs == {p \in SUBSET Obj : Cardinality(p) = 2}
SetToSeq(S) == LET RECURSIVE F(_) F(T) == IF T = {} THEN <<>> ELSE LET x == CHOOSE y \in T : TRUE IN <<x>> \o F(T \ {x}) IN F(S)
Rels == SetToSeq(SUBSET Pairs)         \* a relation = the set of unordered pairs of distinct objects it identifies
Structural == {p \in Pairs : \A a, b \in p : Struct(a) = Struct(b)}
StructuralIdx == CHOOSE i \in DOMAIN Rels : Rels[i] = Structural
Miss == "MISS"

VARIABLES ri,      \* index of the key relation in force
          store,   \* sequence of [key, val] entries (no two keys KeyEq to each other)
          seen,    \* structures that were stored / computed so far
          last,    \* last operation: [op, k, ret, computed]
          hist
vars == <<ri, store, seen, last, hist>>
KeyEq(a, b) == a = b \/ {a, b} \in Rels[ri]
Matches(k) == {i \in DOMAIN store : KeyEq(store[i].key, k)}
Ev(op, k, ret, computed) == [op |-> op, k |-> k, ret |-> ret, computed |-> computed]

Init == /\ ri \in (IF Mode = "structural" THEN {StructuralIdx} ELSE DOMAIN Rels)
        /\ store = <<>> /\ seen = {} /\ last = Ev("init", <<"", 0>>, Miss, FALSE) /\ hist = <<>>
\* d[k] = Denote(k): an entry whose key is KeyEq to k is overwritten (python keeps the old key object)
Put(k) == /\ "put" \in Ops
          /\ IF Matches(k) = {}
             THEN store' = Append(store, [key |-> k, val |-> Denote(k)])
             ELSE \E i \in Matches(k) : store' = [store EXCEPT ![i].val = Denote(k)]
          /\ seen' = seen \cup {Struct(k)}
          /\ last' = Ev("put", k, Miss, FALSE)
\* d.get(k)
Get(k) == /\ "get" \in Ops
          /\ IF Matches(k) = {} THEN last' = Ev("get", k, Miss, FALSE)
             ELSE \E i \in Matches(k) : last' = Ev("get", k, store[i].val, FALSE)
          /\ UNCHANGED <<store, seen>>
\* memoised f(k): a hit returns what is stored, a miss computes Denote(k) and stores it
Call(k) == /\ "call" \in Ops
           /\ IF Matches(k) = {}
              THEN /\ store' = Append(store, [key |-> k, val |-> Denote(k)])
                   /\ last' = Ev("call", k, Denote(k), TRUE)
              ELSE /\ \E i \in Matches(k) : last' = Ev("call", k, store[i].val, FALSE)
                   /\ UNCHANGED store
           /\ seen' = seen \cup {Struct(k)}
Next == /\ Len(hist) < Depth
        /\ \E k \in Obj : Put(k) \/ Get(k) \/ Call(k)
        /\ hist' = Append(hist, last')
        /\ UNCHANGED ri
Spec == Init /\ [][Next]_vars

\* ---- the requirement, as state predicates over the last observation
NoConfusion == last.op \in {"get", "call"} => last.ret \in {Miss, Denote(last.k)}
\* `seen` already contains Struct(last.k) after a call: use the history before the last step
SeenBefore == {Struct(hist[i].k) : i \in {j \in 1..(Len(hist) - 1) : hist[j].op \in {"put", "call"}}}
Interchangeable == /\ (last.op = "get" /\ Struct(last.k) \in SeenBefore) => last.ret # Miss
                   /\ (last.op = "call" /\ Struct(last.k) \in SeenBefore) => ~last.computed
Holds == NoConfusion /\ Interchangeable

\* ---- "iff": per relation, was the requirement ever broken?  (registers; run with -workers 1)
ASSUME \A i \in DOMAIN Rels : TLCSet(i, FALSE)
Track == Holds \/ TLCSet(ri, TRUE)
IffStructural == \A i \in DOMAIN Rels : TLCGet(i) = (Rels[i] # Structural)
Post == /\ \A i \in DOMAIN Rels : PrintT(<<"REL", i, Cardinality(Rels[i]), Rels[i] = Structural, TLCGet(i)>>)
        /\ (Mode = "all" => IffStructural)

\* ---- export of the requirement-level histories (Mode = "structural") for replay on real dictionaries / caches
Export == (Len(hist) = Depth) => PrintT(ToJson(hist))
=============================================================================
