-------------------------------- MODULE Reads --------------------------------
(***************************************************************************)
(* C06, reader level - REQUIREMENT.  Several feeds, each with its own      *)
(* storage holding equally named tables (or: one database in which every   *)
(* feed has a physical table of its own); the storages differ in content   *)
(* and change over time; the reading process may be restarted while the    *)
(* ForML home directory is kept.                                           *)
(*   Read(f, s)   reading statement s through feed f returns exactly what  *)
(*                s denotes over the CURRENT content of f's storage:       *)
(*                Eval(Stmt[s], Content(storage[f])) - nothing else is in  *)
(*                the formula: not the other feeds, not earlier reads, not *)
(*                the process the read happens in                          *)
(*   Mutate(f)    f's storage changes to its next content (an unavailable  *)
(*                storage is created anew by that)                         *)
(*   Break(f)     f's storage becomes unavailable (its table is dropped /  *)
(*                its file removed).  The property speaks about the        *)
(*                contents of a storage: a read while there is none is not *)
(*                constrained (it may fail) - and it must not constrain    *)
(*                any LATER read either: whatever happened before, a read  *)
(*                of an available storage returns the denotation over the  *)
(*                content of that moment (faults are part of "histories")  *)
(*   Restart      a new process (no effect on what a read has to return)   *)
(* Histories (the sequence of actions) and the result every read has to    *)
(* return are kept in hist / outs; TLC exports each history of the bound   *)
(* once (ReadsMC), the driver replays it on real feeds.                    *)
(***************************************************************************)
EXTENDS RelAlg

CONSTANTS Feeds,      \* sequence of feed names
          Depth,      \* length of the histories
          Faulty,     \* the feeds whose storage can become unavailable (action Break)
          Unavail0,   \* the feeds whose storage does not exist yet when the history starts
          ReadStmts   \* the numbers of the statements the histories read (subset of DOMAIN Stmts)
VARIABLES storage,    \* feed name |-> index of its current content
          avail,      \* feed name |-> the storage exists at the moment
          hist,       \* actions so far: [a, f, s]
          outs        \* per Read action so far: [at (position in hist), f, s, avail, rows]; rows only binds when avail

\* one table B(i, s, k) per storage; three contents (same table name everywhere)
TB == Src("table", "B", "", <<<<"i", "int">>, <<"s", "str">>, <<"k", "int">>>>, NilS, NilS, NilF, <<>>, NilF, <<>>, NilF, <<>>, <<>>)
Contents == << [B |-> << <<1, 1, 10>> >>],
               [B |-> << <<1, 2, 20>>, <<2, 1, 30>> >>],
               [B |-> << <<3, 3, 40>>, <<4, 1, 50>>, <<5, 2, 60>> >>] >>
\* four statements: a projection, an aggregate, and two filters that differ ONLY in a literal (k > 15 / k > 35)
LitInt(v) == Feat("lit", NilS, "", "int", v, "", <<>>)
Above(v) == QueryOf(TB, <<Col(TB, "i"), Col(TB, "k")>>, Feat("op", NilS, "", "", "", "gt", <<Col(TB, "k"), LitInt(v)>>), <<>>, NilF, <<>>, <<>>)
Stmts == << QueryOf(TB, <<Col(TB, "i"), Col(TB, "k")>>, NilF, <<>>, NilF, <<>>, <<>>),
            QueryOf(TB, <<Feat("alias", NilS, "n", "", "", "", <<Feat("agg", NilS, "", "", "", "count", <<Col(TB, "i")>>)>>)>>,
                    NilF, <<>>, NilF, <<>>, <<>>),
            Above("15"), Above("35") >>
FeedsAB == <<"f1", "f2">>
FeedsM == <<"m1", "m2">>
FeedsMixed == <<"f1", "m1">>
FeedsFM == <<"f1", "m1", "m2">>
\* two SQL feeds over ONE database (same connection) provisioning the same schema from two physical tables: the
\* storage of a feed is its own table - nothing else changes in the requirement
FeedsST == <<"t1", "t2">>
NoFeeds == {}
AllStmts == DOMAIN Stmts
NoLits == [k \in {"0", "15", "35"} |-> CASE k = "15" -> 15 [] k = "35" -> 35 [] OTHER -> 0]
FeedSet == {Feeds[i] : i \in DOMAIN Feeds}
\* feed number k starts on content k: equally named tables, different rows
InitialStorage == [f \in FeedSet |-> CHOOSE i \in DOMAIN Feeds : Feeds[i] = f]
NextContent(c) == (c % Len(Contents)) + 1

Denotes(f, s) == Eval(Stmts[s], Contents[storage[f]])

InitialAvail == [f \in FeedSet |-> f \notin Unavail0]
Init == storage = InitialStorage /\ avail = InitialAvail /\ hist = <<>> /\ outs = <<>>
Read(f, s) ==
    /\ hist' = Append(hist, [a |-> "read", f |-> f, s |-> s])
    /\ outs' = Append(outs, [at |-> Len(hist) + 1, f |-> f, s |-> s, avail |-> avail[f],
                             rows |-> IF avail[f] THEN Denotes(f, s) ELSE <<>>])
    /\ UNCHANGED <<storage, avail>>
Mutate(f) ==
    /\ storage' = [storage EXCEPT ![f] = NextContent(@)]
    /\ avail' = [avail EXCEPT ![f] = TRUE]
    /\ hist' = Append(hist, [a |-> "mutate", f |-> f, s |-> 0])
    /\ UNCHANGED outs
Break(f) ==
    /\ avail' = [avail EXCEPT ![f] = FALSE]
    /\ hist' = Append(hist, [a |-> "break", f |-> f, s |-> 0])
    /\ UNCHANGED <<storage, outs>>
Restart ==
    /\ hist' = Append(hist, [a |-> "restart", f |-> "", s |-> 0])
    /\ UNCHANGED <<storage, avail, outs>>
Next == /\ Len(hist) < Depth
        /\ \/ \E f \in FeedSet, s \in ReadStmts : Read(f, s)
           \/ \E f \in FeedSet : Mutate(f)
           \/ \E f \in Faulty : Break(f)
           \/ Restart
vars == <<storage, avail, hist, outs>>
Spec == Init /\ [][Next]_vars

\* the property, as an invariant of the requirement itself: every recorded result is the denotation over the
\* content the feed's storage had at that moment, recomputed from the history alone
RECURSIVE StorageAt(_, _)
StorageAt(f, n) ==         \* content index of feed f after the first n actions
    IF n = 0 THEN InitialStorage[f]
    ELSE IF hist[n].a = "mutate" /\ hist[n].f = f THEN NextContent(StorageAt(f, n - 1)) ELSE StorageAt(f, n - 1)
RECURSIVE AvailAt(_, _)
AvailAt(f, n) ==           \* does the storage of feed f exist after the first n actions
    IF n = 0 THEN InitialAvail[f]
    ELSE IF hist[n].f = f /\ hist[n].a = "mutate" THEN TRUE
    ELSE IF hist[n].f = f /\ hist[n].a = "break" THEN FALSE ELSE AvailAt(f, n - 1)
OwnStorageNow ==
    \A k \in DOMAIN outs :
        /\ outs[k].avail = AvailAt(outs[k].f, outs[k].at)
        /\ outs[k].avail => outs[k].rows = Eval(Stmts[outs[k].s], Contents[StorageAt(outs[k].f, outs[k].at)])
=============================================================================
