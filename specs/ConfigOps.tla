----------------------------- MODULE ConfigOps -----------------------------
(***************************************************************************)
(* C20 - pure operators shared by Config.tla (state machine, exhaustive)   *)
(* and TraceConfig.tla (validation of observations of the real code).      *)
(*                                                                         *)
(* A configuration mapping (a nested TOML table) is a FLAT, prefix-free    *)
(* set of entries  [p |-> path, v |-> leaf]                                *)
(*    path = non-empty sequence of keys (strings)                          *)
(*    leaf = [k |-> "s", s |-> n, l |-> <<>>]   scalar n (dictionary code) *)
(*           [k |-> "l", s |-> 0, l |-> q]      list q of element codes    *)
(*           [k |-> "e", s |-> 0, l |-> <<>>]   empty table                *)
(* (one record shape for every sort, so TLC never compares unlike kinds).  *)
(*                                                                         *)
(* Two independent formulations of "layering":                             *)
(*   Merge / Fold  - as-is: recursive pairwise merge, right precedence     *)
(*                   (forml.setup._conf.Config.update)                     *)
(*   Den           - requirement: for every key the value is decided by    *)
(*                   the LAST source defining it; earlier sources only     *)
(*                   contribute while they keep agreeing in kind (table    *)
(*                   with table, list with list) - the "trailing run"      *)
(* and a relational acceptance test Accepts(stack, res) that leaves open   *)
(* what the property leaves open (order inside one source's list part).    *)
(***************************************************************************)
EXTENDS Integers, Sequences, FiniteSets, TLC

Entry(p, v) == [p |-> p, v |-> v]
Sc(n) == [k |-> "s", s |-> n, l |-> <<>>]
Li(q) == [k |-> "l", s |-> 0, l |-> q]
Em == [k |-> "e", s |-> 0, l |-> <<>>]

Range(q) == {q[i] : i \in 1..Len(q)}
InSeq(x, q) == \E i \in 1..Len(q) : q[i] = x
NoDup(q) == \A i, j \in 1..Len(q) : q[i] = q[j] => i = j
IsPrefix(p, q) == Len(p) <= Len(q) /\ \A i \in 1..Len(p) : p[i] = q[i]
IsProper(p, q) == Len(p) < Len(q) /\ IsPrefix(p, q)
Max(S) == CHOOSE x \in S : \A y \in S : y <= x

\* well-formed table: paths non-empty, no path is a prefix of another, source lists carry no duplicates
\* (the property speaks about duplicates arising from merging; a list that repeats an element inside ONE
\*  source is outside its statement - excluded in every generator)
WF(T) == /\ \A e \in T : Len(e.p) >= 1 /\ (e.v.k = "l" => NoDup(e.v.l))
         /\ \A e, f \in T : IsPrefix(e.p, f.p) => e = f

Heads(T) == {e.p[1] : e \in T}
Pick(T, k) == {e \in T : e.p[1] = k}
HasLeaf(T, k) == \E e \in T : e.p = <<k>>
LeafAt(T, k) == (CHOOSE e \in T : e.p = <<k>>).v
\* kind of the value under key k (k \in Heads(T)): "s" scalar, "l" list, "t" table (possibly empty)
KindAt(T, k) == IF HasLeaf(T, k) THEN (IF LeafAt(T, k).k = "e" THEN "t" ELSE LeafAt(T, k).k) ELSE "t"
\* content of the table under k (empty set for an empty table)
Sub(T, k) == {Entry(Tail(e.p), e.v) : e \in {x \in T : Len(x.p) > 1 /\ x.p[1] = k}}
Pre(k, T) == {Entry(<<k>> \o e.p, e.v) : e \in T}
TableAt(k, T) == IF T = {} THEN {Entry(<<k>>, Em)} ELSE Pre(k, T)

(***************************************************************************)
(* As-is: pairwise recursive merge with right precedence.                  *)
(***************************************************************************)
MergeList(old, new) == new \o SelectSeq(old, LAMBDA x : ~InSeq(x, new))

RECURSIVE Merge(_, _)
Merge(L, R) ==
    UNION {
        IF k \in Heads(L) /\ k \in Heads(R) /\ KindAt(L, k) = "t" /\ KindAt(R, k) = "t"
            THEN TableAt(k, Merge(Sub(L, k), Sub(R, k)))
        ELSE IF k \in Heads(L) /\ k \in Heads(R) /\ KindAt(L, k) = "l" /\ KindAt(R, k) = "l"
            THEN {Entry(<<k>>, Li(MergeList(LeafAt(L, k).l, LeafAt(R, k).l)))}
        ELSE IF k \in Heads(R) THEN Pick(R, k)
        ELSE Pick(L, k)
      : k \in Heads(L) \cup Heads(R)}

RECURSIVE Fold(_)
Fold(S) == IF Len(S) = 0 THEN {} ELSE Merge(Fold(SubSeq(S, 1, Len(S) - 1)), S[Len(S)])

(***************************************************************************)
(* Requirement: the whole stack at once, key by key.                       *)
(***************************************************************************)
\* indices (ascending) of the trailing run for key k: the last source defining k and, going backwards, the
\* sources defining k with the same kind until one defines it with another kind
Definers(S, k) == {i \in 1..Len(S) : k \in Heads(S[i])}
Run(S, k) == LET I == Definers(S, k)
                 m == Max(I)
             IN {i \in I : \A j \in I : j >= i => KindAt(S[j], k) = KindAt(S[m], k)}
\* ascending sequence of a finite set of integers
RECURSIVE Asc(_)
Asc(I) == IF I = {} THEN <<>> ELSE LET m == Max(I) IN Append(Asc(I \ {m}), m)

\* lists of a run, newest first, every element once at its newest occurrence
RECURSIVE NewFirst(_)
NewFirst(Ls) == IF Len(Ls) = 0 THEN <<>>
                ELSE LET new == Ls[Len(Ls)]
                     IN new \o SelectSeq(NewFirst(SubSeq(Ls, 1, Len(Ls) - 1)), LAMBDA x : ~InSeq(x, new))

RECURSIVE Den(_)
Den(S) ==
    UNION {
        LET run == Asc(Run(S, k))
            m == run[Len(run)]
            kind == KindAt(S[m], k)
        IN IF kind = "s" THEN Pick(S[m], k)
           ELSE IF kind = "l" THEN {Entry(<<k>>, Li(NewFirst([i \in 1..Len(run) |-> LeafAt(S[run[i]], k).l])))}
           ELSE TableAt(k, Den([i \in 1..Len(run) |-> Sub(S[run[i]], k)]))
      : k \in UNION {Heads(S[i]) : i \in 1..Len(S)}}

(***************************************************************************)
(* Path-wise vocabulary for the clause invariants.                         *)
(***************************************************************************)
\* source T replaces whatever an earlier source had at path p (p = path of a leaf of that earlier source):
\* T has a non-table value at p or above it, or T turns p into a table
Overrides(T, p) == \E f \in T : \/ f.p = p
                               \/ (IsProper(f.p, p) /\ f.v.k # "e")
                               \/ IsProper(p, f.p)
\* T says anything at all about p or a part of it
Touches(T, p) == \E f \in T : IsPrefix(f.p, p) \/ IsPrefix(p, f.p)
HasList(T, p) == \E e \in T : e.p = p /\ e.v.k = "l"
ListOf(T, p) == (CHOOSE e \in T : e.p = p /\ e.v.k = "l").v.l

\* the lists that reach path p through a stack (ascending), under the requirement semantics: computed by
\* walking the path with the trailing-run rule; <<>> when p does not end in a list in Den(S)
RECURSIVE ListRun(_, _)
ListRun(S, p) ==
    LET k == p[1] IN
    IF Definers(S, k) = {} THEN <<>>
    ELSE LET run == Asc(Run(S, k))
             kind == KindAt(S[run[Len(run)]], k)
         IN IF Len(p) = 1
            THEN (IF kind = "l" THEN [i \in 1..Len(run) |-> LeafAt(S[run[i]], k).l] ELSE <<>>)
            ELSE (IF kind = "t" THEN ListRun([i \in 1..Len(run) |-> Sub(S[run[i]], k)], Tail(p)) ELSE <<>>)

\* rank of an element = position (in the run) of the newest list holding it
Rank(Ls, x) == Max({i \in 1..Len(Ls) : InSeq(x, Ls[i])})
\* requirement on a merged list: exactly the elements of the run, none twice, newer before older
ListOK(Ls, q) == /\ Range(q) = UNION {Range(Ls[i]) : i \in 1..Len(Ls)}
                 /\ NoDup(q)
                 /\ \A i, j \in 1..Len(q) : i < j => Rank(Ls, q[i]) >= Rank(Ls, q[j])

NonList(T) == {e \in T : e.v.k # "l"}
ListPaths(T) == {e.p : e \in {x \in T : x.v.k = "l"}}
\* requirement-level acceptance of an observed result for a stack
Accepts(S, res) == /\ WF(res)
                   /\ NonList(res) = NonList(Den(S))
                   /\ ListPaths(res) = ListPaths(Den(S))
                   /\ \A p \in ListPaths(res) : ListOK(ListRun(S, p), ListOf(res, p))
\* no path gets values of different kinds from different sources (where folding is associative)
KindStable(S) == \A i, j \in 1..Len(S) : \A e \in S[i], f \in S[j] :
                     /\ ~IsProper(e.p, f.p) \/ e.v.k = "e"
                     /\ e.p = f.p => (e.v.k = f.v.k)
=============================================================================
