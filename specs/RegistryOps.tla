----------------------------- MODULE RegistryOps -----------------------------
(* Generator of registry histories for C05 (requirement level): publishes of   *)
(* increasing and non-increasing versions, trainings with 0..MaxStates states, *)
(* reads; one of the operations is marked to be crashed.  Exported behaviours  *)
(* are replayed on the real posix registry with a crash injected at every      *)
(* file-system event of the marked operation.                                  *)
EXTENDS Naturals, Sequences, FiniteSets, TLC, Json
CONSTANTS NR, MaxGen, MaxStates, Len0
VARIABLES published, gens, hist, crashed
vars == <<published, gens, hist, crashed>>
Rel == 1..NR
Max(S) == CHOOSE x \in S : \A y \in S : y <= x
Init == published = {} /\ gens = [r \in Rel |-> 0] /\ hist = <<>> /\ crashed = FALSE
Ev(op, v, n, c) == [op |-> op, v |-> v, n |-> n, crash |-> c]
\* a crashed operation is replayed both ways (took effect / did not): the generator continues as if it did not
Publish(v, c) == /\ (c => ~crashed) /\ crashed' = (crashed \/ c)
                 /\ published' = IF c \/ (published # {} /\ v <= Max(published)) THEN published ELSE published \cup {v}
                 /\ hist' = Append(hist, Ev("publish", v, 0, c)) /\ UNCHANGED gens
Train(r, n, c) == /\ r \in published /\ gens[r] < MaxGen /\ (c => ~crashed) /\ crashed' = (crashed \/ c)
                  /\ gens' = IF c THEN gens ELSE [gens EXCEPT ![r] = @ + 1]
                  /\ hist' = Append(hist, Ev("train", r, n, c)) /\ UNCHANGED published
Next == \/ \E v \in Rel, c \in BOOLEAN : Publish(v, c)
        \/ \E r \in Rel, n \in 0..MaxStates, c \in BOOLEAN : Train(r, n, c)
Spec == Init /\ [][Next]_vars
Bound == Len(hist) <= Len0
Export == (Len(hist) = Len0 /\ crashed) => PrintT(ToJson(hist))
=============================================================================
