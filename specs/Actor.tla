------------------------------- MODULE Actor -------------------------------
(***************************************************************************)
(* C13.  Actor state / hyper-parameter contract (requirement level).       *)
(*                                                                         *)
(* One builder and NI actor instances built from it.  An instance is the   *)
(* pair (params, model):                                                   *)
(*   params - the hyper-parameters in force, a total assignment of the     *)
(*            keys 1..NP (0 = the constructor default of that key),        *)
(*   model  - the training history, the sequence of training events        *)
(*            [p |-> params in force when trained, d |-> data]; training   *)
(*            is incremental (Append), <<>> = untrained.                   *)
(* `apply(x)` of an instance is the uninterpreted term App(i, x) =         *)
(* [p, m, x]: the params in force, the whole model and the input are       *)
(* visible in the value, so "behaves identically" is equality of terms.    *)
(*                                                                         *)
(* What the property demands, clause by clause:                            *)
(*  - a state exported by GetState carries the model; SetState installs    *)
(*    that model and NEVER touches the params of the receiver (builder /   *)
(*    SetParams values win over whatever is stored inside a state);        *)
(*  - hence a rebuilt actor given the state of a trained twin applies      *)
(*    exactly like the twin whenever both have equal params                *)
(*    (TransferEquivalence);                                               *)
(*  - the empty state (b'') is a no-op, in particular it leaves an         *)
(*    untrained actor untrained;                                           *)
(*  - pickling an instance or the builder changes nothing observable;      *)
(*  - an actor is stateful exactly when it has a train implementation (ht) *)
(*    and a stateless one never acquires a model nor exports a state;      *)
(*  - builder, instances and exported states do not alias each other;       *)
(*  - a program driving the actors through flow.Functor executes functor   *)
(*    OBJECTS: a functor holds one builder and every execution acts on an  *)
(*    actor rebuilt from that builder (+ the params / state presets passed *)
(*    to that very execution).  The program is free to execute ONE functor *)
(*    object many times, for every instance / rebuild that has the same    *)
(*    builder (`car`, the carrier chosen by Build), and to pickle it in    *)
(*    between: a functor has no memory, so the choice of the carrier is    *)
(*    unobservable (FunctorHasNoMemory) - an instance rebuilt on a used    *)
(*    carrier is untrained and runs on the builder's params, exactly as on *)
(*    a new one.  Through the direct actor API the carrier is meaningless. *)
(*                                                                         *)
(* Silent region (excluded by the enabling conditions, see SetState): the  *)
(* state exported by an UNTRAINED twin given to a TRAINED actor (flavours  *)
(* legitimately differ: the default pickles "model = None", the decorated  *)
(* pair exports b'').                                                      *)
(***************************************************************************)
EXTENDS Integers, Sequences, FiniteSets, TLC, Json
CONSTANTS NP,      \* hyper-parameter keys 1..NP
          MaxV,    \* explicit values 1..MaxV (0 = constructor default)
          NI,      \* instances 1..NI
          Data,    \* data values (train sets / apply inputs)
          HTS,     \* subset of BOOLEAN: "has a train implementation" of the flavours explored
          Depth,   \* bound on the number of calls
          Rich     \* TRUE: also full parameter assignments, build-time overrides, builder reset
VARIABLES ht,      \* has train
          bld,     \* builder kwargs: Keys -> Vals \cup {Absent}
          inst,    \* Inst -> [built, params, model]
          snap,    \* Inst -> last state exported by GetState(j): [has, model, params]
          sync, fed, bp,   \* provenance (ghosts used only by the invariants)
          car, bk,         \* Inst -> functor object (carrier id, 0 = none) executing instance i / the builder kwargs it holds;
                           \* a free choice of the program that no observation depends on (hidden by VIEW)
          hist, out        \* call history / last apply result (hidden by VIEW)
view == <<ht, bld, inst, snap, sync, fed, bp>>
vars == <<ht, bld, inst, snap, sync, fed, bp, car, bk, hist, out>>

Absent == 99
Keys == 1..NP
Inst == 1..NI
Vals == 1..MaxV
NoP == [k \in Keys |-> Absent]
Merge(old, p) == [k \in Keys |-> IF p[k] = Absent THEN old[k] ELSE p[k]]
Resolve(b) == [k \in Keys |-> IF b[k] = Absent THEN 0 ELSE b[k]]
Defaults == Resolve(NoP)
Singles == {[k \in Keys |-> IF k = kk THEN v ELSE Absent] : kk \in Keys, v \in Vals}
Fulls == [Keys -> Vals]
Deltas == Singles \cup (IF Rich THEN Fulls ELSE {})
Overrides == {NoP} \cup (IF Rich THEN Singles ELSE {})
Builders0 == {NoP} \cup Singles \cup Fulls

Unbuilt == [built |-> FALSE, params |-> Defaults, model |-> <<>>]
NoSnap == [has |-> FALSE, params |-> Defaults, model |-> <<>>]
Ev(op, i, j, d, p) == [op |-> op, i |-> i, j |-> j, d |-> d, p |-> p]
Log(e) == hist' = Append(hist, e)
\* the value of actor.apply(x)
App(i, x) == [p |-> inst[i].params, m |-> inst[i].model, x |-> x]
NoOut == [p |-> Defaults, m |-> <<>>, x |-> 0]

\* A flavour is free in how it REPRESENTS its model (the state object a user train function returns is opaque to forml):
\* besides the event list itself the replays drive a flavour whose state is a single number, the running sum of the
\* event weights - a trained model may well have the sum 0 (a falsy state object) and still is a trained model, only
\* <<>> is "untrained".  Tally is the observation expected of such an actor (exported along with the model).
RECURSIVE KeySum(_, _)
KeySum(p, k) == IF k = 0 THEN 0 ELSE k * p[k] + KeySum(p, k - 1)
Weight(e) == e.d - 1 + KeySum(e.p, NP)
RECURSIVE Tally(_)
Tally(m) == IF m = <<>> THEN 0 ELSE Weight(Head(m)) + Tally(Tail(m))

\* instance 1 is built from the initial builder right away (every interesting history starts like that; it buys one
\* more call inside the same Depth)
Fresh(b) == [built |-> TRUE, params |-> Resolve(b), model |-> <<>>]
Init == /\ ht \in HTS
        /\ bld \in Builders0
        /\ inst = [i \in Inst |-> IF i = 1 THEN Fresh(bld) ELSE Unbuilt]
        /\ snap = [i \in Inst |-> NoSnap]
        /\ sync = [i \in Inst |-> 0] /\ fed = [i \in Inst |-> FALSE]
        /\ bp = [i \in Inst |-> IF i = 1 THEN Resolve(bld) ELSE Defaults]
        /\ car = [i \in Inst |-> IF i = 1 THEN 2 ELSE 0] /\ bk = [i \in Inst |-> IF i = 1 THEN bld ELSE NoP]
        /\ hist = <<Ev(IF ht THEN "stateful" ELSE "stateless", 0, 0, 0, bld), Ev("build", 1, 2, 0, NoP)>>
        /\ out = NoOut

---------------------------------------------------------------------------
\* builder.update(**p): a NEW builder; instances built earlier are unaffected
Update(p) == /\ bld' = Merge(bld, p) /\ Log(Ev("update", 0, 0, 0, p))
             /\ UNCHANGED <<ht, inst, snap, sync, fed, bp, car, bk, out>>
\* builder.reset(**p)
Reset(p) == /\ bld' = p /\ Log(Ev("reset", 0, 0, 0, p))
            /\ UNCHANGED <<ht, inst, snap, sync, fed, bp, car, bk, out>>
\* the functor objects the program may execute for an actor of builder kwargs b: every live one holding exactly b
\* (also the one that carried instance i so far) or a new one (identified by the position of the build call)
Reusable(b) == {car[k] : k \in {n \in Inst : inst[n].built /\ bk[n] = b}}
Carriers(ov) == Reusable(Merge(bld, ov)) \cup {Len(hist) + 1}
\* inst[i] := builder(**ov)   (a fresh, untrained actor; an earlier snapshot snap[i] stays valid as bytes);
\* through flow.Functor: instance i is from now on executed by the functor object c with empty presets
BuildOn(i, ov, c) ==
                /\ c \in Carriers(ov)
                /\ inst' = [inst EXCEPT ![i] = [built |-> TRUE, params |-> Resolve(Merge(bld, ov)), model |-> <<>>]]
                /\ car' = [car EXCEPT ![i] = c] /\ bk' = [bk EXCEPT ![i] = Merge(bld, ov)]
                /\ sync' = [sync EXCEPT ![i] = 0] /\ fed' = [fed EXCEPT ![i] = FALSE]
                /\ bp' = [bp EXCEPT ![i] = Resolve(Merge(bld, ov))]
                /\ Log(Ev("build", i, c, 0, ov))
                /\ UNCHANGED <<ht, bld, snap, out>>
Build(i, ov) == \E c \in Carriers(ov) : BuildOn(i, ov, c)
\* inst[i].train(x_d, y_d): incremental, under the params in force
Train(i, d) == /\ ht /\ inst[i].built
               /\ inst' = [inst EXCEPT ![i].model = Append(@, [p |-> inst[i].params, d |-> d])]
               /\ sync' = [sync EXCEPT ![i] = 0] /\ fed' = [fed EXCEPT ![i] = TRUE]
               /\ Log(Ev("train", i, 0, d, NoP))
               /\ UNCHANGED <<ht, bld, snap, bp, car, bk, out>>
\* snap[i] := inst[i].get_state()  (an immutable value; may also carry the params of the exporter)
GetState(i) == /\ inst[i].built
               /\ LET s == [has |-> TRUE, params |-> inst[i].params, model |-> inst[i].model] IN
                    /\ snap' = [snap EXCEPT ![i] = s]
                    /\ sync' = [k \in Inst |-> IF sync[k] = i /\ s.model # snap[i].model THEN 0 ELSE sync[k]]
               /\ Log(Ev("getstate", i, 0, 0, NoP))
               /\ UNCHANGED <<ht, bld, inst, fed, bp, car, bk, out>>
\* inst[i].set_state(snap[j]) (directly or through flow.Functor.preset_state): model from the state, params kept
SetState(i, j) == /\ inst[i].built /\ snap[j].has
                  /\ snap[j].model # <<>> \/ inst[i].model = <<>>      \* silent region excluded (see header)
                  /\ inst' = [inst EXCEPT ![i].model = snap[j].model]
                  /\ sync' = [sync EXCEPT ![i] = j]
                  /\ fed' = [fed EXCEPT ![i] = (snap[j].model # <<>>)]
                  /\ Log(Ev("setstate", i, j, 0, NoP))
                  /\ UNCHANGED <<ht, bld, snap, bp, car, bk, out>>
\* inst[i].set_state(b''): nothing happens
SetEmpty(i) == /\ inst[i].built
               /\ Log(Ev("setempty", i, 0, 0, NoP))
               /\ UNCHANGED <<ht, bld, inst, snap, sync, fed, bp, car, bk, out>>
\* inst[i].set_params(**p)
SetParams(i, p) == /\ inst[i].built
                   /\ inst' = [inst EXCEPT ![i].params = Merge(@, p)]
                   /\ bp' = [bp EXCEPT ![i] = Merge(@, p)]
                   /\ Log(Ev("setparams", i, 0, 0, p))
                   /\ UNCHANGED <<ht, bld, snap, sync, fed, car, bk, out>>
\* inst[i] := loads(dumps(inst[i]))
Pickle(i) == /\ inst[i].built
             /\ Log(Ev("pickle", i, 0, 0, NoP))
             /\ UNCHANGED <<ht, bld, inst, snap, sync, fed, bp, car, bk, out>>
\* builder := loads(dumps(builder))
PickleB == /\ Log(Ev("pickleb", 0, 0, 0, NoP))
           /\ UNCHANGED <<ht, bld, inst, snap, sync, fed, bp, car, bk, out>>
\* out := inst[i].apply(x): a pure observation (changes only the hidden variables)
Apply(i, x) == /\ inst[i].built
               /\ out' = App(i, x)
               /\ Log(Ev("apply", i, 0, x, NoP))
               /\ UNCHANGED <<ht, bld, inst, snap, sync, fed, bp, car, bk>>

Next == \/ \E p \in Deltas : Update(p)
        \/ \E p \in (IF Rich THEN Singles \cup {NoP} ELSE {}) : Reset(p)
        \/ \E i \in Inst : \/ \E ov \in Overrides : Build(i, ov)
                           \/ \E d \in Data : Train(i, d) \/ Apply(i, d)
                           \/ GetState(i) \/ SetEmpty(i) \/ Pickle(i)
                           \/ \E j \in Inst : SetState(i, j)
                           \/ \E p \in Deltas : SetParams(i, p)
        \/ PickleB
Spec == Init /\ [][Next]_vars
Bound == Len(hist) <= Depth + 2

---------------------------------------------------------------------------
\* state invariants, one per clause
Partial(p) == DOMAIN p = Keys /\ \A k \in Keys : p[k] \in (0..MaxV) \cup {Absent}
Total(p) == DOMAIN p = Keys /\ \A k \in Keys : p[k] \in 0..MaxV
TypeOK == /\ Partial(bld)
          /\ \A i \in Inst : /\ Total(inst[i].params) /\ Total(bp[i]) /\ Total(snap[i].params)
                             /\ \A n \in 1..Len(inst[i].model) : Total(inst[i].model[n].p) /\ inst[i].model[n].d \in Data
                             /\ ~inst[i].built => inst[i] = Unbuilt
                             /\ car[i] \in Nat /\ Partial(bk[i]) /\ (inst[i].built <=> car[i] # 0)
\* a functor object holds exactly one builder: instances executed by the same one were built from equal kwargs
CarrierHoldsBuilder == \A i, k \in Inst : (inst[i].built /\ inst[k].built /\ car[i] = car[k]) => bk[i] = bk[k]
\* an actor given the state of a twin applies like the twin (as long as the twin still is in the exported
\* state and the params are equal) - for EVERY input
TransferEquivalence ==
    \A i, j \in Inst : (sync[i] = j /\ inst[j].built /\ snap[j].has /\ inst[j].model = snap[j].model
                          /\ inst[i].params = inst[j].params) => \A x \in Data : App(i, x) = App(j, x)
\* params in force = what the builder supplied at build time (+ later set_params); never what a state carried
BuilderParamsWin == \A i \in Inst : inst[i].built => inst[i].params = bp[i]
\* an actor is trained iff it was trained or fed a non-empty state since it was built (empty state: stays untrained)
UntrainedUnlessFed == \A i \in Inst : inst[i].built => ((inst[i].model # <<>>) <=> fed[i])
\* stateful iff has train: without train no model is ever acquired and every exported state is empty
StatelessNeverTrained == ~ht => \A i \in Inst : inst[i].model = <<>> /\ snap[i].model = <<>>
\* apply is a function of (params, model, input) only
ApplyFunctional == \A i, j \in Inst : (inst[i].built /\ inst[j].built /\ inst[i].params = inst[j].params
                                         /\ inst[i].model = inst[j].model) => \A x \in Data : App(i, x) = App(j, x)

\* action properties (who may change what); E = the call just logged
E == hist'[Len(hist')]
ParamsOnlyBySetParams == [][\A i \in Inst : inst'[i].params # inst[i].params => (E.i = i /\ E.op \in {"build", "setparams"})]_vars
ModelOnlyByTrainOrState == [][\A i \in Inst : inst'[i].model # inst[i].model => (E.i = i /\ E.op \in {"build", "train", "setstate"})]_vars
EmptyIsNoop == [][E.op = "setempty" => UNCHANGED <<bld, inst, snap>>]_vars
PickleIsIdentity == [][E.op \in {"pickle", "pickleb"} => UNCHANGED <<bld, inst, snap>>]_vars
BuilderIsolated == [][bld' # bld => E.op \in {"update", "reset"}]_vars
SnapshotImmutable == [][\A j \in Inst : snap'[j] # snap[j] => (E.op = "getstate" /\ E.i = j)]_vars
\* whichever functor object carries a (re)built instance - a new one or one that has executed other instances, other
\* presets, trainings before - the instance is untrained and runs on the params of the builder that functor holds
FunctorHasNoMemory == [][E.op = "build" => (/\ inst'[E.i] = Fresh(bk'[E.i]) /\ bp'[E.i] = Resolve(bk'[E.i])
                                            /\ \A k \in Inst \ {E.i} : inst'[k] = inst[k])]_vars
SetStateKeepsParams == [][E.op = "setstate" => (inst'[E.i].params = inst[E.i].params /\ inst'[E.i].model = snap[E.j].model)]_vars

\* TLC evaluates the invariants on every state it generates (before the VIEW fingerprint decides whether it is new),
\* so this prints one behaviour per TRANSITION of the bounded state graph - including the no-op calls (pickle,
\* empty state) - with the expected observation.  apply steps are skipped (apply is observed after every
\* behaviour anyway).  Compact arrays:
\* [[op, i, j, d, p]...], [[built, params, [[p, d]...]]...], builder kwargs, [Tally of the model...])
Export == (Len(hist) > 2 /\ hist[Len(hist)].op # "apply") =>
    PrintT(ToJson(<<[n \in 1..Len(hist) |-> <<hist[n].op, hist[n].i, hist[n].j, hist[n].d, hist[n].p>>],
                    [i \in Inst |-> <<inst[i].built, inst[i].params,
                                      [n \in 1..Len(inst[i].model) |-> <<inst[i].model[n].p, inst[i].model[n].d>>]>>],
                    bld, [i \in Inst |-> Tally(inst[i].model)]>>))
=============================================================================
