-------------------------------- MODULE Hints --------------------------------
(***************************************************************************)
(* C14 - push-down hints offered to storage back-ends never lose required  *)
(* data.  REQUIREMENT level (judges any hints, wherever they come from):   *)
(* a hint is [path, table, cols, factors]: for the table occurrence at     *)
(* path the back-end may deliver only the columns cols and only the rows   *)
(* satisfying the disjunction of factors (all rows when there is none).    *)
(*   Scoped          the filter of an occurrence mentions only columns of  *)
(*                   that table (else no back-end could evaluate it)       *)
(*   ColumnsComplete cols contains every column of the table the statement *)
(*                   uses through that occurrence: projection, filters,    *)
(*                   join conditions, grouping, ordering                   *)
(*   SafeOn(db)      Eval(stmt, db) = Eval(stmt, Restrict(db, hints)):     *)
(*                   a back-end honouring the row filters returns the same *)
(*                   result as one ignoring them; Safe == \A db : SafeOn   *)
(* Model checking (Hints.cfg generated per tier): the AS-IS hints of        *)
(* FactorsImpl.tla are judged for every statement of the family Stmts      *)
(* against EVERY database with <= MaxRows rows per table over Dom (the      *)
(* universally quantified db is enumerated: Safe is decided, not sampled,  *)
(* inside the bound).  The per-statement verdicts are exported; a violated *)
(* clause is a design-level finding which the driver replays on the code.  *)
(***************************************************************************)
EXTENDS RelAlg, FactorsImpl, Json, TLCExt

(* ------------------------------ requirement ---------------------------- *)
TableKeys(t) == [i \in DOMAIN t.cols |-> KeyOf(t, t.cols[i][1])]
Scoped(h) == \A f \in h.factors : \A e \in Elems(f) : e.src = h.table
Passes(h, row) == h.factors = {} \/ \E f \in h.factors : Val(f, TableKeys(h.table), row, <<>>) = 1
\* rows of the occurrence a hint-honouring back-end delivers (an unscoped filter cannot be honoured: all rows)
Delivered(h, db) ==
    LET rows == TableRows(h.table, db, h.path) IN
    IF Scoped(h) THEN SelectSeq(rows, LAMBDA r : Passes(h, r)) ELSE rows
Paths(hs) == {hs[i].path : i \in DOMAIN hs}
Restrict(db, hs) ==
    [k \in DOMAIN db \cup Paths(hs) |->
        IF k \in Paths(hs) THEN Delivered(hs[CHOOSE i \in DOMAIN hs : hs[i].path = k], db) ELSE db[k]]
\* limit/offset windows pick rows by position: safety is a statement about the rows before the window
Strip(s) == IF s.t = "query" THEN [s EXCEPT !.rows = <<>>] ELSE s
SafeOn(stmt, hs, db) == BagEq(Eval(Strip(stmt), db), Eval(Strip(stmt), Restrict(db, hs)))

\* columns used through one table occurrence: by the clauses of its query context and the conditions of the joins
\* of that context, addressed through the table itself or through the reference wrapping it
RECURSIVE JoinConds(_)
JoinConds(o) == IF o.t = "join" THEN Present(o.on) \cup JoinConds(o.l) \cup JoinConds(o.r) ELSE {}
ContextFeatures(q) == QueryFeatures(q) \cup JoinConds(q.l) \cup (IF q.sel = <<>> THEN ElemsOf(q.l) ELSE {})
UsedVia(q, handle) ==
    {e.name : e \in {x \in UNION {Elems(f) : f \in ContextFeatures(q)} : x.src = handle}}
RECURSIVE Occ(_, _, _, _)
Occ(s, p, q, handle) ==
    CASE s.t = "table" -> {[path |-> p, table |-> s, used |-> UsedVia(q, IF handle.t = "nil" THEN s ELSE handle)]}
      [] s.t = "ref" -> Occ(s.l, p \o "/l", q, IF s.l.t = "table" THEN s ELSE NilS)
      [] s.t = "join" -> Occ(s.l, p \o "/l", q, NilS) \cup Occ(s.r, p \o "/r", q, NilS)
      [] s.t = "set" -> Occ(StatementOf(s.l), p \o "/l", q, NilS) \cup Occ(StatementOf(s.r), p \o "/r", q, NilS)
      [] s.t = "query" -> Occ(s.l, p \o "/l", s, NilS)
      [] OTHER -> {}
Occurrences(stmt) == Occ(StatementOf(stmt), "", StatementOf(stmt), NilS)
ColumnsComplete(stmt, hs) ==
    \A o \in Occurrences(stmt) :
        \E i \in DOMAIN hs : hs[i].path = o.path /\ hs[i].table = o.table /\ o.used \subseteq hs[i].cols
AllScoped(hs) == \A i \in DOMAIN hs : Scoped(hs[i])

(* -------------------------- model checking harness --------------------- *)
CONSTANTS Family,      \* name of the statement family (see Stmts)
          Depth,       \* nesting depth of the generated predicates
          MaxRows,     \* rows per table
          WithNull     \* TRUE: cells range over {0, 1, NULL}, FALSE: over {0, 1}

\* the small world: A(x, y), B(x), C(x), integers; literal dictionary of the model
TA == Src("table", "A", "", <<<<"x", "int">>, <<"y", "int">>>>, NilS, NilS, NilF, <<>>, NilF, <<>>, NilF, <<>>, <<>>)
TB == Src("table", "B", "", <<<<"x", "int">>>>, NilS, NilS, NilF, <<>>, NilF, <<>>, NilF, <<>>, <<>>)
TC == Src("table", "C", "", <<<<"x", "int">>>>, NilS, NilS, NilF, <<>>, NilF, <<>>, NilF, <<>>, <<>>)
RA == RefOf(TA, "r")
ModelLits == [k \in {"0", "1"} |-> IF k = "0" THEN 0 ELSE 1]
L1 == Feat("lit", NilS, "", "int", "1", "", <<>>)
L0 == Feat("lit", NilS, "", "int", "0", "", <<>>)
Ax == Col(TA, "x")  Ay == Col(TA, "y")  Bx == Col(TB, "x")  Cx == Col(TC, "x")  Rx == Col(RA, "x")

DomSeq == IF WithNull THEN <<0, 1, NULL>> ELSE <<0, 1>>
\* every database with <= MaxRows rows per table, built as SEQUENCES (bags = non-decreasing tuples of row numbers)
RECURSIVE RowSeq(_), BagSeq(_, _, _)
RowSeq(n) == IF n = 0 THEN <<<<>>>>
             ELSE Flat([i \in DOMAIN DomSeq |-> [j \in DOMAIN RowSeq(n - 1) |-> <<DomSeq[i]>> \o RowSeq(n - 1)[j]]])
BagSeq(rows, k, lo) ==        \* all bags of exactly k rows whose row numbers are >= lo
    IF k = 0 THEN <<<<>>>>
    ELSE Flat([i \in 1..(Len(rows) - lo + 1) |->
                 LET r == lo + i - 1 rest == BagSeq(rows, k - 1, r) IN [j \in DOMAIN rest |-> <<rows[r]>> \o rest[j]]])
ContentSeq(n) == Flat([k \in 1..(MaxRows + 1) |-> BagSeq(RowSeq(n), k - 1, 1)])
CA == ContentSeq(2)
CB == ContentSeq(1)
DbSeq == Flat([a \in DOMAIN CA |-> Flat([b \in DOMAIN CB |-> [c \in DOMAIN CB |-> [A |-> CA[a], B |-> CB[b], C |-> CB[c]]]])])
\* statements over two tables never look at C: one content of C is enough for them
DbSeq2 == Flat([a \in DOMAIN CA |-> [b \in DOMAIN CB |-> [A |-> CA[a], B |-> CB[b], C |-> <<>>]]])

\* predicates: atoms over one table, over two tables, over a table and its reference
RECURSIVE Preds(_, _)
Preds(atoms, d) ==
    IF d = 0 THEN atoms
    ELSE LET sub == Preds(atoms, d - 1) IN
         sub \cup {Op("not", <<a>>) : a \in sub}
             \cup {Op(o, <<a, b>>) : o \in {"and", "or"}, a \in sub, b \in sub}
Eq(a, b) == Op("eq", <<a, b>>)
Lt(a, b) == Op("lt", <<a, b>>)
AtomsAB == {Eq(Ax, L1), Eq(Bx, L1), Eq(Ax, Bx), Lt(Ax, Bx), Op("isnull", <<Bx>>), Eq(Ay, L0)}
AtomsSmall == {Eq(Ax, L1), Eq(Bx, L1), Lt(Ax, Bx)}
Kinds == {"inner", "left", "right", "full"}
All(l) == QueryOf(l, <<>>, NilF, <<>>, NilF, <<>>, <<>>)
Where(l, w) == QueryOf(l, <<>>, w, <<>>, NilF, <<>>, <<>>)
SelWhere(l, sel, w) == QueryOf(l, sel, w, <<>>, NilF, <<>>, <<>>)

Stmts ==
    CASE Family = "where" ->       \* predicates in the where clause of a join of two tables (all kinds) and of one table
           {Where(JoinOf(TA, TB, k, Lt(Ax, Bx)), w) : k \in Kinds, w \in Preds(AtomsAB, Depth)}
           \cup {Where(JoinOf(TA, TB, "cross", NilF), w) : w \in Preds(AtomsSmall, Depth)}
           \cup {Where(TA, w) : w \in Preds({Eq(Ax, L1), Eq(Ay, L0), Lt(Ax, Ay)}, Depth)}
      [] Family = "on" ->          \* predicates as the join condition, projection of one column per side
           {SelWhere(JoinOf(TA, TB, k, c), <<Ay, Bx>>, NilF) : k \in Kinds, c \in Preds(AtomsAB, Depth)}
           \cup {All(JoinOf(TA, TB, k, c)) : k \in Kinds, c \in {Eq(Ax, Bx), Lt(Ax, Bx)}}
      [] Family = "self" ->        \* self join through a reference, nested statement as an origin
           {SelWhere(JoinOf(TA, RA, k, c), <<Ax, Rx>>, w) :
                k \in {"inner", "left"}, c \in {Lt(Ax, Rx), Eq(Ay, Col(RA, "y"))},
                w \in {NilF} \cup Preds({Eq(Ax, L1), Eq(Rx, L1)}, Depth)}
           \cup {SelWhere(RA, <<Rx>>, w) : w \in {NilF, Eq(Rx, L1), Eq(Col(RA, "y"), L0)}}
           \cup UNION {LET sub == RefOf(SelWhere(TA, <<Ax, Ay>>, w1), "s") IN
                       {SelWhere(JoinOf(sub, TB, "inner", Lt(Col(sub, "x"), Bx)), <<Col(sub, "y"), Bx>>, w2) :
                           w2 \in {NilF} \cup Preds({Eq(Bx, L1), Eq(Col(sub, "x"), L1)}, 1)} :
                       w1 \in {NilF, Eq(Ax, L1)}}
      [] Family = "three" ->       \* joins of three tables, conditions and where spanning them
           {Where(JoinOf(JoinOf(TA, TB, k1, c1), TC, k2, c2), w) :
                k1 \in {"inner", "left"}, k2 \in {"inner", "left", "right"},
                c1 \in {Eq(Ax, Bx), Lt(Ax, Bx)}, c2 \in {Eq(Bx, Cx), Op("and", <<Lt(Ax, Cx), Eq(Cx, L1)>>)},
                w \in {NilF} \cup Preds({Eq(Ax, L1), Eq(Cx, L1)}, Depth)}
      [] OTHER -> {}
Dbs == IF Family = "three" THEN DbSeq ELSE DbSeq2

VARIABLES stmt,     \* the statement under judgement
          dbi,      \* number of databases judged so far
          unsafe,   \* how many of them the as-is hints were unsafe on
          first     \* the first such database (0: none)
vars == <<stmt, dbi, unsafe, first>>
Stmt == stmt
Impl == ImplHints(Stmt)
Init == stmt \in Stmts /\ dbi = 0 /\ unsafe = 0 /\ first = 0
\* one step per database: the universally quantified db of Safe
NextDb == /\ dbi < Len(Dbs)
          /\ dbi' = dbi + 1
          /\ LET ok == Impl.crash # "" \/ SafeOn(Stmt, Impl.hints, Dbs[dbi + 1]) IN
                /\ unsafe' = unsafe + (IF ok THEN 0 ELSE 1)
                /\ first' = IF ~ok /\ first = 0 THEN dbi + 1 ELSE first
          /\ UNCHANGED stmt
Next == NextDb
Spec == Init /\ [][Next]_vars

\* every statement is WellFormed (the family is inside the grammar) - a broken generator is a machinery error
FamilyWellFormed == WellFormed(Stmt)
\* the clauses of the property as invariants of the AS-IS hints (expected to be violated where the code is
\* defective; the driver runs them as exports, one verdict per statement, not as stoppers)
ImplParses == Impl.crash = ""
ImplScoped == AllScoped(Impl.hints)
ImplComplete == Impl.crash = "" => ColumnsComplete(Stmt, Impl.hints)
ImplSafe == unsafe = 0
\* verdict of a statement once every database was judged
Export ==
    dbi = Len(Dbs) =>
        PrintT(ToJson([ast |-> Stmt,
                       verdict |-> <<Impl.crash, B(ImplScoped), B(ImplComplete), unsafe, first>>,
                       hints |-> [h \in DOMAIN Impl.hints |->
                                     [path |-> Impl.hints[h].path, table |-> Impl.hints[h].table.name,
                                      cols |-> Impl.hints[h].cols, factors |-> Impl.hints[h].factors]]]))
Post == PrintT(<<"FAMILY", Cardinality(Stmts), Len(Dbs), TLCGet("distinct")>>)
=============================================================================
