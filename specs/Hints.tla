-------------------------------- MODULE Hints --------------------------------
(***************************************************************************)
(* C14 - push-down hints offered to storage back-ends never lose required  *)
(* data.  REQUIREMENT level (judges any hints, wherever they come from):   *)
(* a hint is [path, table, cols, factors]: for the table occurrence at     *)
(* path the back-end may deliver only the columns cols and only the rows   *)
(* satisfying the disjunction of factors (all rows when there is none).    *)
(*   Scoped          the filter of an occurrence mentions only columns of  *)
(*                   that table (else no back-end could evaluate it)       *)
(*   ColumnsComplete cols contains every column of the table the statement *)
(*                   uses through that occurrence: projection, filters,    *)
(*                   join conditions, grouping, ordering                   *)
(*   SafeOn(db)      Eval(stmt, db) = Eval(stmt, Restrict(db, hints)):     *)
(*                   a back-end honouring the row filters returns the same *)
(*                   result as one ignoring them; Safe == \A db : SafeOn   *)
(* Universe(tables, maxrows, dom) enumerates EVERY database with at most    *)
(* maxrows rows per table over dom, so that the universally quantified db  *)
(* of Safe is decided, not sampled, inside that bound (HintsMC.tla judges  *)
(* the as-is hints of FactorsImpl.tla that way, TraceHints.tla the hints   *)
(* recorded from the real parser).                                         *)
(***************************************************************************)
EXTENDS RelAlg

(* ------------------------------ requirement ---------------------------- *)
TableKeys(t) == [i \in DOMAIN t.cols |-> KeyOf(t, t.cols[i][1])]
Scoped(h) == \A f \in h.factors : \A e \in Elems(f) : e.src = h.table
Passes(h, row) == h.factors = {} \/ \E f \in h.factors : Val(f, TableKeys(h.table), row, <<>>) = 1
\* rows of the occurrence a hint-honouring back-end delivers (an unscoped filter cannot be honoured: all rows)
Delivered(h, db) ==
    LET rows == TableRows(h.table, db, h.path) IN
    IF Scoped(h) THEN SelectSeq(rows, LAMBDA r : Passes(h, r)) ELSE rows
Paths(hs) == {hs[i].path : i \in DOMAIN hs}
Restrict(db, hs) ==
    [k \in DOMAIN db \cup Paths(hs) |->
        IF k \in Paths(hs) THEN Delivered(hs[CHOOSE i \in DOMAIN hs : hs[i].path = k], db) ELSE db[k]]
\* limit/offset windows pick rows by position: safety is a statement about the rows before the window
Strip(s) == IF s.t = "query" THEN [s EXCEPT !.rows = <<>>] ELSE s
SafeOn(stmt, hs, db) == BagEq(Eval(Strip(stmt), db), Eval(Strip(stmt), Restrict(db, hs)))
\* Safe over a universe of databases (a sequence): the universally quantified db of the property, enumerated
Safe(stmt, hs, dbs) == \A i \in DOMAIN dbs : SafeOn(stmt, hs, dbs[i])

\* columns used through one table occurrence: by the clauses of its query context and the conditions of the joins
\* of that context, addressed through the table itself or through the reference wrapping it
RECURSIVE JoinConds(_)
JoinConds(o) == IF o.t = "join" THEN Present(o.on) \cup JoinConds(o.l) \cup JoinConds(o.r) ELSE {}
ContextFeatures(q) == QueryFeatures(q) \cup JoinConds(q.l) \cup (IF q.sel = <<>> THEN ElemsOf(q.l) ELSE {})
UsedVia(q, handle) ==
    {e.name : e \in {x \in UNION {Elems(f) : f \in ContextFeatures(q)} : x.src = handle}}
RECURSIVE Occ(_, _, _, _)
Occ(s, p, q, handle) ==
    CASE s.t = "table" -> {[path |-> p, table |-> s, used |-> UsedVia(q, IF handle.t = "nil" THEN s ELSE handle)]}
      [] s.t = "ref" -> Occ(s.l, p \o "/l", q, IF s.l.t = "table" THEN s ELSE NilS)
      [] s.t = "join" -> Occ(s.l, p \o "/l", q, NilS) \cup Occ(s.r, p \o "/r", q, NilS)
      [] s.t = "set" -> Occ(StatementOf(s.l), p \o "/l", q, NilS) \cup Occ(StatementOf(s.r), p \o "/r", q, NilS)
      [] s.t = "query" -> Occ(s.l, p \o "/l", s, NilS)
      [] OTHER -> {}
Occurrences(stmt) == Occ(StatementOf(stmt), "", StatementOf(stmt), NilS)
ColumnsComplete(stmt, hs) ==
    \A o \in Occurrences(stmt) :
        \E i \in DOMAIN hs : hs[i].path = o.path /\ hs[i].table = o.table /\ o.used \subseteq hs[i].cols
AllScoped(hs) == \A i \in DOMAIN hs : Scoped(hs[i])

\* the disjuncts of an offered filter (Segment.predicate is the Or-reduction of the factors)
RECURSIVE OrLeaves(_)
OrLeaves(x) == IF x.f = "nil" THEN {}
               ELSE IF x.f = "op" /\ x.op = "or" THEN OrLeaves(x.args[1]) \cup OrLeaves(x.args[2]) ELSE {x}

(* ------------- every database within a bound (sequences, built constructively) ------------- *)
\* all rows of width n over the value sequence dom / all bags of exactly k such rows (non-decreasing row numbers)
RECURSIVE RowSeq(_, _), BagSeq(_, _, _)
RowSeq(n, dom) == IF n = 0 THEN <<<<>>>>
                  ELSE LET rest == RowSeq(n - 1, dom) IN
                       Flat([i \in DOMAIN dom |-> [j \in DOMAIN rest |-> <<dom[i]>> \o rest[j]]])
BagSeq(rows, k, lo) ==
    IF k = 0 THEN <<<<>>>>
    ELSE Flat([i \in 1..(Len(rows) - lo + 1) |->
                 LET r == lo + i - 1 rest == BagSeq(rows, k - 1, r) IN [j \in DOMAIN rest |-> <<rows[r]>> \o rest[j]]])
ContentSeq(n, maxrows, dom) == Flat([k \in 1..(maxrows + 1) |-> BagSeq(RowSeq(n, dom), k - 1, 1)])
\* tables: sequence of <<name, width>>; the result is a sequence of functions name |-> rows
RECURSIVE Universe(_, _, _)
Universe(tables, maxrows, dom) ==
    IF tables = <<>> THEN << <<>> >>
    ELSE LET rest == Universe(Tail(tables), maxrows, dom)
             mine == ContentSeq(Head(tables)[2], maxrows, dom)
         IN Flat([a \in DOMAIN mine |-> [b \in DOMAIN rest |-> (Head(tables)[1] :> mine[a]) @@ rest[b]]])
=============================================================================
