-------------------------- MODULE NegotiationRequest --------------------------
(***************************************************************************)
(* C19, the request level.  A serving request brings TWO headers: the      *)
(* Content-Type of its payload and (optionally) an Accept header.  The     *)
(* gateway parses both (Negotiation.tla), builds a request from them and   *)
(* the application answers it:                                             *)
(*   receive - decodes the payload with a decoder matching the declared    *)
(*             content type (most preferred range of Content-Type), else   *)
(*             the unsupported-encoding error;                             *)
(*   respond - encodes the result with the first supported encoder in the  *)
(*             preference order of the CLIENT'S Accept header, else the    *)
(*             unsupported-encoding error.                                 *)
(* State: `ctype` = the declared content type (one range, fixed per         *)
(* behaviour), `hdr`/`pref` = the Accept header read range by range as in  *)
(* Negotiation (hdr = <<>>: the client sent no Accept header).             *)
(* Requirement (operators ReplySet / AcceptList of Negotiation.tla):       *)
(*   an Accept header, once present, alone decides the response: the       *)
(*   content type of the request is no part of the client's preferences    *)
(*   (ReplyIgnoresContentType, ReplyFromClientList, UnsupportedIffNoRange) *)
(*   and the decoder is decided by the content type alone (trivially: it   *)
(*   is DecoderSet(ctype)).                                                *)
(* Without an Accept header the property is silent; the documented as-is   *)
(* default (answer in the encoding of the request) is exported as `idef`   *)
(* and tracked as drift only.                                              *)
(***************************************************************************)
EXTENDS Negotiation
CONSTANTS CtKinds,    \* kinds of the content types (concrete)
          CtOpts      \* option sets of the content types
VARIABLE ctype
rvars == <<hdr, pref, ctype>>

Ctypes == {Enc(k.t, k.s, o) : k \in CtKinds, o \in CtOpts}

(************************* constant domains for cfg ************************)
\* content types: decodable / producible / near misses of both / unknown
CtKindsReq == {K("application", "json"), K("text", "csv"), K("foo", "bar"), K("application", "jsonl")}
CtOptsReq == {{}, {Fmt("pandas-split")}}
\* Accept ranges: supported, unsupported and wildcard kinds
KindsReq == {K("application", "json"), K("text", "csv"), K("foo", "bar"), K("text", "*")}
QsReq == {NoQ, 500}

RInit == Init /\ ctype \in Ctypes
RAddDefault == AddDefault /\ UNCHANGED ctype
RAddWeighted == AddWeighted /\ UNCHANGED ctype
RNext == RAddDefault \/ RAddWeighted
RSpec == RInit /\ [][RNext]_rvars

(******************************* invariants ********************************)
Reply == ReplySet(ctype, Mine)
RTypeOK == TypeOK /\ Concrete(ctype) /\ ctype \in Ctypes
\* with an Accept header the outcome is that of negotiating the Accept header alone - whatever the request was
\* encoded in
ReplyIgnoresContentType == N > 0 => Reply = EncoderSet(Mine)
\* every encoder the response may come from is matched by a range the client listed (and by its decisive one)
ReplyFromClientList ==
    N > 0 => \A e \in Reply : \E p \in 1..N : /\ Match(Mine[p], Encoders[e])
                                             /\ \A r \in 1..(p - 1), x \in 1..Len(Encoders) : ~Match(Mine[r], Encoders[x])
\* the unsupported-encoding error exactly when no listed range is supported - being able to produce the encoding of
\* the request does not help
UnsupportedIffNoRange ==
    N > 0 => ((Reply = {}) <=> (\A p \in 1..N, e \in 1..Len(Encoders) : ~Match(Mine[p], Encoders[e])))
\* as-is default without Accept: the encoders matching the request's own encoding
DefaultReply == N = 0 => Reply = Hits(ctype)

(********************************* export **********************************)
RExport == ExportFrom > 0 =>
    PrintT(ToJson([req |-> TRUE, ctype |-> ctype, hdr |-> hdr, parsed |-> Mine,
                   judged |-> N > 0,                       \* Accept present: the reply is decided by the property
                   enc |-> Reply,
                   dec |-> DecoderSet(ctype)]))
=============================================================================
