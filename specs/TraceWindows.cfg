SPECIFICATION Spec
CONSTANT Variant = "doc"
CONSTRAINT Track
POSTCONDITION Post
CHECK_DEADLOCK FALSE
