----------------------------- MODULE FactorsImpl -----------------------------
(***************************************************************************)
(* AS-IS model (implementation shaped, forml @ the pinned commit) of how   *)
(* the DSL parser derives the push-down hints it offers to                 *)
(* Visitor.generate_table(table, features, predicate):                     *)
(*   series.Predicate.Factors / Factors.merge, And / Or / Not /            *)
(*   Comparison.factors                      (io/dsl/_struct/series.py)    *)
(*   Container.Context.Tables.select / filter, Segment.predicate,          *)
(*   Visitor.visit_query / visit_join / visit_reference / visit_table      *)
(*                                           (io/dsl/parser.py)            *)
(* including what the code knowingly or unknowingly does:                  *)
(*   - Factors.merge passes the whole right mapping (not its item) for a   *)
(*     table only the right operand knows: the constructor then raises     *)
(*     (crash "merge");                                                    *)
(*   - Not.factors returns the operand's factors un-negated, Or merges     *)
(*     keep a factor only one side has;                                    *)
(*   - only Comparison / logical operators have .factors: any other        *)
(*     boolean feature (a boolean column, literal, cast) raises            *)
(*     AttributeError (crash "nonpredicate");                              *)
(*   - "if source.condition:" in visit_join is FALSE for an Equal whose    *)
(*     operands differ (Equal.__bool__ compares hashes), so neither the    *)
(*     columns nor the factors of an equality join condition are           *)
(*     registered;                                                         *)
(*   - segments are keyed by dsl.Table and only Column instances (elements *)
(*     of tables, not of references) are dissected, so the table under a   *)
(*     reference is offered the segment of the directly used table;        *)
(*   - a factor may contain elements of a reference; generating it at      *)
(*     visit_table looks the reference up in context.origins, which is     *)
(*     filled only after the reference was visited (crash "refkey").       *)
(* The constant Fixed names the proposed repairs (the C06 / C14 diffs under *)
(* proposed_fixes) the code under test already carries - detected by the   *)
(* driver by probing the public API - so that the model stays the AS-IS    *)
(* model of the tree it is compared with:                                  *)
(*   "merge" "nonpredicate" "refelem" "not" "or" "eqjoin" "outer"          *)
(* Hash equality of features is modelled as structural equality (the       *)
(* generators avoid literals with colliding hashes: property C08).         *)
(* Nothing in this module is a requirement: Hints.tla judges the hints.    *)
(***************************************************************************)
EXTENDS DslAst

CONSTANT Fixed        \* subset of {"merge", "nonpredicate", "refelem", "not", "or", "eqjoin", "outer"}

(* ---------------- series.Predicate.factors ---------------- *)
IsColumn(e) == e.f = "col" /\ e.src.t = "table"
Columns(x) == {e \in Elems(x) : IsColumn(e)}             \* Column.dissect(x)
ColumnOrigins(x) == {e.src : e \in Columns(x)}
FOk(m) == [crash |-> "", m |-> m]                        \* m: set of [t |-> table, p |-> predicate], one per table
FCrash(c) == [crash |-> c, m |-> {}]
FKeys(m) == {x.t : x \in m}
FGet(m, k) == (CHOOSE x \in m : x.t = k).p

\* Factors.merge(left, right, operator)
FMerge(L, R, op) ==
    IF L.crash # "" THEN L ELSE IF R.crash # "" THEN R
    ELSE IF op = "or" /\ "or" \in Fixed
    THEN \* repaired: a disjunction constrains a table only if both operands do
         FOk({[t |-> k, p |-> IF FGet(L.m, k) # FGet(R.m, k) THEN Op(op, <<FGet(L.m, k), FGet(R.m, k)>>) ELSE FGet(L.m, k)] :
                 k \in FKeys(L.m) \cap FKeys(R.m)})
    ELSE IF FKeys(R.m) \ FKeys(L.m) # {} /\ "merge" \notin Fixed
    THEN FCrash("merge")      \* "else right" instead of "else right[k]"
    ELSE FOk({[t |-> k,
               p |-> IF k \in FKeys(L.m) /\ k \in FKeys(R.m) /\ FGet(L.m, k) # FGet(R.m, k)
                     THEN Op(op, <<FGet(L.m, k), FGet(R.m, k)>>)
                     ELSE IF k \in FKeys(L.m) THEN FGet(L.m, k) ELSE FGet(R.m, k)] : k \in FKeys(L.m) \cup FKeys(R.m)})

\* the single table a predicate is a factor of ({} when none): as-is only Column instances are looked at;
\* repaired ("refelem") every element counts, so a predicate touching a reference is no factor
FactorTable(x) == IF "refelem" \in Fixed /\ \E e \in Elems(x) : ~IsColumn(e) THEN {}
                  ELSE IF Cardinality(ColumnOrigins(x)) = 1 THEN ColumnOrigins(x) ELSE {}
RECURSIVE Factors(_)
Factors(x) ==
    IF x.f = "op" /\ x.op \in Compare \cup NullTest
    THEN FOk({[t |-> o, p |-> x] : o \in FactorTable(x)})
    ELSE IF x.f = "op" /\ x.op \in {"and", "or"} THEN FMerge(Factors(x.args[1]), Factors(x.args[2]), x.op)
    ELSE IF x.f = "op" /\ x.op = "not"
    THEN IF "not" \in Fixed
         THEN (IF Factors(x.args[1]).crash # "" THEN Factors(x.args[1]) ELSE FOk({[t |-> o, p |-> x] : o \in FactorTable(x)}))
         ELSE Factors(x.args[1])      \* un-negated
    ELSE IF "nonpredicate" \in Fixed THEN FOk({}) ELSE FCrash("nonpredicate")

(* ---------------- parser.Container.Context / Visitor ---------------- *)
\* context: fields / facts = the Tables segments (pairs keyed by table), seen = context.origins, plus the
\* hints emitted so far and the crash (exception class) that aborted the parse
NewCtx(hints) == [fields |-> {}, facts |-> {}, seen |-> {}, hints |-> hints, crash |-> ""]
SelectF(ctx, feats) == [ctx EXCEPT !.fields = @ \cup UNION {Columns(f) : f \in feats}]          \* Tables.select
FilterF(ctx, x) ==                                                                              \* Tables.filter
    LET fr == Factors(x) IN
    IF fr.crash # "" THEN [ctx EXCEPT !.crash = fr.crash]
    ELSE [SelectF(ctx, {x}) EXCEPT !.facts = @ \cup fr.m]
\* "if source.condition:" - None and an Equal of two different operands are falsy
Truthy(c) == c.f # "nil" /\ ("eqjoin" \in Fixed \/ ~(c.f = "op" /\ c.op = "eq" /\ c.args[1] # c.args[2]))
\* repaired ("outer"): row filters that are unsafe below an outer join are withdrawn (Visitor._protect_outer)
RECURSIVE TablesUnder(_)
TablesUnder(o) == IF o.t = "join" THEN TablesUnder(o.l) \cup TablesUnder(o.r) ELSE IF o.t = "table" THEN {o} ELSE {}
IsPredicate(c) == c.f = "op" /\ c.op \in Compare \cup NullTest \cup Logical
Protect(ctx, s) ==
    IF "outer" \notin Fixed \/ s.kind \in {"inner", "cross"} \/ ctx.crash # "" THEN ctx
    ELSE LET L == TablesUnder(s.l)
             R == TablesUnder(s.r)
             preserved == IF s.kind = "left" THEN L ELSE IF s.kind = "right" THEN R ELSE L \cup R
             supplied == IF s.kind = "left" THEN R ELSE IF s.kind = "right" THEN L ELSE L \cup R
             own == IF IsPredicate(s.on) /\ Factors(s.on).crash = "" THEN Factors(s.on).m ELSE {}
             kept == {x \in ctx.facts : x.t \notin supplied \/ x \in own}
         IN [ctx EXCEPT !.facts = {x \in kept : ~(x.t \in preserved /\ x \in own)}]
RefElems(fs) == {e \in UNION {Elems(f) : f \in fs} : e.src.t = "ref"}

RECURSIVE VisitS(_, _, _)
VisitS(s, ctx, p) ==
    IF ctx.crash # "" THEN ctx ELSE
    CASE s.t = "table" ->
           LET mine == {x.p : x \in {y \in ctx.facts : y.t = s}}
           IN IF {e.src : e \in RefElems(mine)} \ ctx.seen # {} THEN [ctx EXCEPT !.crash = "refkey"]
              ELSE [ctx EXCEPT !.seen = @ \cup {s},
                               !.hints = Append(@, [path |-> p, table |-> s,
                                                    cols |-> {c.name : c \in {f \in ctx.fields : f.src = s}},
                                                    factors |-> mine])]
      [] s.t = "ref" -> LET c == VisitS(s.l, ctx, p \o "/l") IN [c EXCEPT !.seen = @ \cup {s}]
      [] s.t = "join" ->
           LET c1 == Protect(IF Truthy(s.on) THEN FilterF(ctx, s.on) ELSE ctx, s)
           IN VisitS(s.r, VisitS(s.l, c1, p \o "/l"), p \o "/r")
      [] s.t = "set" -> VisitS(StatementOf(s.r), VisitS(StatementOf(s.l), ctx, p \o "/l"), p \o "/r")
      [] s.t = "query" ->
           LET c1 == SelectF(NewCtx(ctx.hints), IF s.sel = <<>> THEN ElemsOf(s.l) ELSE Range(s.sel))
               c2 == IF s.where.f = "nil" THEN c1 ELSE FilterF(c1, s.where)
               c3 == SelectF(c2, Present(s.having) \cup Range(s.group) \cup {s.order[i].x : i \in DOMAIN s.order})
               c4 == IF c2.crash # "" THEN c2 ELSE VisitS(s.l, c3, p \o "/l")
           IN [ctx EXCEPT !.hints = c4.hints, !.crash = c4.crash]
      [] OTHER -> ctx

\* [crash |-> "" | "merge" | "nonpredicate" | "refkey", hints |-> <<[path, table, cols, factors]...>>] in visit order;
\* the offered row filter of a hint is the disjunction of its factors (Segment.predicate), none when empty
ImplHints(stmt) == LET c == VisitS(stmt, NewCtx(<<>>), "") IN [crash |-> c.crash, hints |-> c.hints]
=============================================================================
