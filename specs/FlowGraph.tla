------------------------------ MODULE FlowGraph ------------------------------
(***************************************************************************)
(* C11 - task graph construction (requirement level).                      *)
(*                                                                         *)
(* A fixed cast of nodes (workers with group / statefulness / shape,       *)
(* Future placeholders) and the state `wire`: the set of DECLARED          *)
(* connections <<p, i, s, q>> "output i of p feeds input port q of s",      *)
(* q >= 0 an apply port, TrainPort / LabelPort the two training ports; s   *)
(* may be a Future (the publisher is then registered on the placeholder).  *)
(*                                                                         *)
(* Futures are transparent: Down(D, p, i) resolves the worker input ports  *)
(* fed by output i of p through any chain of placeholders; it is what the  *)
(* real node.output must show (the "direct wiring").                       *)
(*                                                                         *)
(* Every public call has a set of allowed outcomes:                        *)
(*   "ok"   - succeeds, effect = exactly the declared wires                *)
(*   "topo" - must raise TopologyError and leave the graph unchanged       *)
(*   "any"  - property silent: either succeed with the effect or raise     *)
(*            leaving the graph unchanged                                  *)
(***************************************************************************)
EXTENDS Integers, Sequences, FiniteSets, TLC, Json
CONSTANTS Cast,       \* sequence of [k, zin, zout, grp, sf]: k = "w" worker / "f" future
          Depth,      \* bound on successful calls
          WithTrace   \* TRUE: keep the history of calls (export), FALSE: pure state exploration
VARIABLES wire, hist
vars == <<wire, hist>>

TrainPort == -1
LabelPort == -2
Nodes == 1..Len(Cast)
IsW(n) == Cast[n].k = "w"
IsF(n) == Cast[n].k = "f"
PubPorts == {<<p, i>> \in Nodes \X (0..2) : i < Cast[p].zout}
ApplyPorts == {<<s, q>> \in Nodes \X (0..2) : q < Cast[s].zin}

(* ------------------------------------------------------------------ *)
(* resolution through placeholders                                     *)
RECURSIVE DownR(_, _, _, _)
DownR(D, p, i, fuel) ==
    {<<x[3], x[4]>> : x \in {y \in D : y[1] = p /\ y[2] = i /\ IsW(y[3])}}
    \cup (IF fuel = 0 THEN {}
          ELSE UNION {DownR(D, x[3], x[4], fuel - 1) : x \in {y \in D : y[1] = p /\ y[2] = i /\ IsF(y[3])}})
Down(D, p, i) == DownR(D, p, i, Len(Cast))
\* placeholders reachable from a placeholder output through registrations only
RECURSIVE FutReach(_, _, _)
FutReach(D, f, fuel) ==
    LET nxt == {x[3] : x \in {y \in D : y[1] = f /\ IsF(y[3])}} IN
    nxt \cup (IF fuel = 0 THEN {} ELSE UNION {FutReach(D, g, fuel - 1) : g \in nxt})
FutureCycle(D) == \E f \in Nodes : IsF(f) /\ f \in FutReach(D, f, Len(Cast))

Trained(D, n) == \E x \in D : x[3] = n /\ x[4] < 0
HasApplyIn(D, n) == \E x \in D : x[3] = n /\ x[4] >= 0
\* resolved through placeholders: a worker registered on a placeholder nobody subscribes to publishes nothing yet
Publishes(D, n) == \E i \in 0..(Cast[n].zout - 1) : Down(D, n, i) # {}

(* ------------------------------------------------------------------ *)
(* the topology invariants of the property, on a declared graph D       *)
SinglePublisher(D) == \A x, y \in D : (x[3] = y[3] /\ x[4] = y[4]) => x = y
ResolvedSingle(D) == \A s \in Nodes, q \in -2..2 :
    Cardinality({pi \in PubPorts : IsW(pi[1]) /\ <<s, q>> \in Down(D, pi[1], pi[2])}) <= 1
NoSelfLoop(D) == /\ \A x \in D : x[1] # x[3]
                 /\ \A pi \in PubPorts : \A sq \in Down(D, pi[1], pi[2]) : sq[1] # pi[1]
ApplyXorTrain(D) == \A n \in Nodes : ~(Trained(D, n) /\ HasApplyIn(D, n))
OneTrainedPerGroup(D) == \A a, b \in Nodes :
    (IsW(a) /\ IsW(b) /\ Cast[a].grp = Cast[b].grp /\ Trained(D, a) /\ Trained(D, b)) => a = b
TrainedPublishesNothing(D) == \A n \in Nodes : Trained(D, n) => ~Publishes(D, n)
TopologyOK(D) == /\ SinglePublisher(D) /\ NoSelfLoop(D) /\ ApplyXorTrain(D)
                 /\ OneTrainedPerGroup(D) /\ TrainedPublishesNothing(D)

(* ------------------------------------------------------------------ *)
(* what a reader of the real objects must see for the declared graph D  *)
Obs(D) == [n \in Nodes |->
             [out |-> [i \in 1..Cast[n].zout |-> Down(D, n, i - 1)],
              inp |-> IF IsW(n) THEN {x[4] : x \in {y \in D : y[3] = n}} ELSE {},
              trained |-> IsW(n) /\ Trained(D, n),
              derived |-> IsW(n) /\ Cast[n].sf /\ \E m \in Nodes : m # n /\ IsW(m) /\ Cast[m].grp = Cast[n].grp /\ Trained(D, m)]]

(* cycle among (non-trained) nodes reachable from h in the resolved graph *)
Succ(D, n) == UNION {{sq[1] : sq \in Down(D, n, i)} : i \in 0..(Cast[n].zout - 1)}
RECURSIVE ReachR(_, _, _)
ReachR(D, S, fuel) == LET T == S \cup UNION {Succ(D, n) : n \in S} IN IF fuel = 0 \/ T = S THEN T ELSE ReachR(D, T, fuel - 1)
Reach(D, n) == ReachR(D, {n}, Len(Cast))
CycleFrom(D, h) == \E n \in Reach(D, h) : n \in ReachR(D, Succ(D, n), Len(Cast))

(* ------------------------------------------------------------------ *)
(* calls                                                                *)
SubCall(s, q, p, i) == [op |-> "sub", a |-> <<s, q, p, i>>]
TrainCall(w, p1, i1, p2, i2) == [op |-> "train", a |-> <<w, p1, i1, p2, i2>>]
SegCall(h) == [op |-> "segment", a |-> <<h>>]
CompCall(h) == [op |-> "compose", a |-> <<h>>]
SegTailCall(h, t) == [op |-> "segtail", a |-> <<h, t>>]      \* a segment given with its explicit tail
Calls == {SubCall(sq[1], sq[2], pi[1], pi[2]) : sq \in ApplyPorts, pi \in PubPorts}
         \cup {TrainCall(w, a[1], a[2], b[1], b[2]) : w \in {n \in Nodes : IsW(n)}, a \in PubPorts, b \in PubPorts}
         \cup {SegCall(h) : h \in {n \in Nodes : Cast[n].zin <= 1}}
         \cup {CompCall(h) : h \in {n \in Nodes : Cast[n].zin <= 1}}
         \cup {SegTailCall(h, t) : h \in {n \in Nodes : Cast[n].zin <= 1}, t \in {n \in Nodes : IsW(n) /\ Cast[n].zout <= 1}}   \* (a placeholder given as tail stands for the worker it is equal to: not generated)
Effect(c) == CASE c.op = "sub" -> {<<c.a[3], c.a[4], c.a[1], c.a[2]>>}
               [] c.op = "train" -> {<<c.a[2], c.a[3], c.a[1], TrainPort>>, <<c.a[4], c.a[5], c.a[1], LabelPort>>}
               [] OTHER -> {}
\* inputs on which the property is silent are not generated: placeholder-only cycles
Generated(D, c) == ~FutureCycle(D \cup Effect(c))
Outcome(D, c) ==
    CASE c.op = "sub" -> IF Effect(c) \subseteq D THEN "any"      \* repeating an existing connection: no second publisher
                         ELSE IF ~TopologyOK(D \cup Effect(c)) THEN "topo" ELSE "ok"
      [] c.op = "train" -> IF Effect(c) \subseteq D THEN "any"
                           ELSE IF ~TopologyOK(D \cup Effect(c)) \/ Effect(c) \cap D # {} THEN "topo"
                           ELSE IF ~Cast[c.a[1]].sf THEN "any" ELSE "ok"
      [] c.op = "segment" -> IF CycleFrom(D, c.a[1]) THEN "topo" ELSE "any"
      \* tracing a segment rejects cycles whether the tail is found by scanning or given by the caller
      [] c.op = "segtail" -> IF CycleFrom(D, c.a[1]) THEN "topo" ELSE "any"
      [] c.op = "compose" -> IF CycleFrom(D, c.a[1]) \/ (IsF(c.a[1]) /\ \E m \in Succ(D, c.a[1]) : ~Trained(D, m)) THEN "topo" ELSE "any"
      [] OTHER -> "any"
Mutates(c) == c.op \in {"sub", "train"}

Init == wire = {} /\ hist = <<>>
Do(c) == /\ Generated(wire, c)
         /\ Mutates(c) /\ Outcome(wire, c) = "ok"
         /\ wire' = wire \cup Effect(c)
         /\ hist' = IF WithTrace THEN Append(hist, c) ELSE hist
Next == \E c \in Calls : Do(c)
Spec == Init /\ [][Next]_vars
Bound == Cardinality(wire) <= Depth

\* every reachable declared graph satisfies the invariants (accepted calls never break them) ...
Safe == TopologyOK(wire)
\* lemma: one declared publisher per port (placeholder ports included) implies one resolved worker publisher per port
ResolvedSingleLemma == ResolvedSingle(wire)
\* ... and placeholders are transparent: the resolved worker-to-worker edges equal the direct wiring, i.e. the
\* graph obtained by substituting every placeholder away
Direct(D) == {x \in D : IsW(x[1]) /\ IsW(x[3])}
             \cup {<<e[1], e[2], e[3], e[4]>> : e \in {y \in Nodes \X (0..2) \X Nodes \X (-2..2) :
                        IsW(y[1]) /\ y[2] < Cast[y[1]].zout /\ IsW(y[3]) /\ <<y[3], y[4]>> \in Down(D, y[1], y[2])}}
FutureTransparent == \A e \in Direct(wire) : <<e[3], e[4]>> \in Obs(wire)[e[1]].out[e[2] + 1]
\* failure atomicity is structural here: a "topo"/"any"-refused call is a stuttering step
View == wire
\* export: one witness history per distinct declared graph plus the verdict for EVERY call in that state
Export == WithTrace => PrintT(ToJson([hist |-> hist, wire |-> wire, obs |-> Obs(wire),
              calls |-> {[c |-> c, res |-> Outcome(wire, c)] : c \in {d \in Calls : Generated(wire, d)}}]))
=============================================================================
