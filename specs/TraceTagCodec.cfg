SPECIFICATION TSpec
CONSTANTS NT = 1
 NS = 1
 Kinds = {"int"}
 Codec = "req"
 Untrained = TRUE
 MaxGen = 1000000
CONSTRAINT Track
POSTCONDITION Post
CHECK_DEADLOCK FALSE
