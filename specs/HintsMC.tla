------------------------------- MODULE HintsMC -------------------------------
(***************************************************************************)
(* C14 - model checking of the AS-IS hints (FactorsImpl.tla) against the   *)
(* requirement (Hints.tla): for every statement of the family Stmts and    *)
(* EVERY database with <= MaxRows rows per table over {0, 1 (, NULL)} TLC  *)
(* steps through the databases (action NextDb) counting those on which the *)
(* offered row filters lose data; Scoped / ColumnsComplete are judged once. *)
(* Families: predicates of every shape up to the depth bound in where /    *)
(* join conditions, negations of compound predicates (depth 3), self joins *)
(* through references, nested statements, three tables, aggregating        *)
(* queries (having with and without a groupby).                            *)
(* The verdict of every statement is exported (invariant Export); clauses  *)
(* violated by the as-is model are design-level findings which the driver  *)
(* replays on the real parser (TraceHints.tla judges the recorded hints).   *)
(***************************************************************************)
EXTENDS Hints, FactorsImpl, Json, TLCExt

CONSTANTS Family,      \* name of the statement family (see Stmts)
          Depth,       \* nesting depth of the generated predicates
          MaxRows,     \* rows per table
          WithNull     \* TRUE: cells range over {0, 1, NULL}, FALSE: over {0, 1}

\* the small world: A(x, y), B(x), C(x), integers; literal dictionary of the model
TA == Src("table", "A", "", <<<<"x", "int">>, <<"y", "int">>>>, NilS, NilS, NilF, <<>>, NilF, <<>>, NilF, <<>>, <<>>)
TB == Src("table", "B", "", <<<<"x", "int">>>>, NilS, NilS, NilF, <<>>, NilF, <<>>, NilF, <<>>, <<>>)
TC == Src("table", "C", "", <<<<"x", "int">>>>, NilS, NilS, NilF, <<>>, NilF, <<>>, NilF, <<>>, <<>>)
RA == RefOf(TA, "r")
ModelLits == [k \in {"0", "1"} |-> IF k = "0" THEN 0 ELSE 1]
L1 == Feat("lit", NilS, "", "int", "1", "", <<>>)
L0 == Feat("lit", NilS, "", "int", "0", "", <<>>)
Ax == Col(TA, "x")  Ay == Col(TA, "y")  Bx == Col(TB, "x")  Cx == Col(TC, "x")  Rx == Col(RA, "x")

DomSeq == IF WithNull THEN <<0, 1, NULL>> ELSE <<0, 1>>
DbSeq == Universe(<<<<"A", 2>>, <<"B", 1>>, <<"C", 1>>>>, MaxRows, DomSeq)
\* statements over two tables never look at C: one content of C is enough for them
DbSeq2 == LET u == Universe(<<<<"A", 2>>, <<"B", 1>>>>, MaxRows, DomSeq) IN [i \in DOMAIN u |-> ("C" :> <<>>) @@ u[i]]

\* predicates: atoms over one table, over two tables, over a table and its reference
RECURSIVE Preds(_, _)
Preds(atoms, d) ==
    IF d = 0 THEN atoms
    ELSE LET sub == Preds(atoms, d - 1) IN
         sub \cup {Op("not", <<a>>) : a \in sub}
             \cup {Op(o, <<a, b>>) : o \in {"and", "or"}, a \in sub, b \in sub}
Eq(a, b) == Op("eq", <<a, b>>)
AggOf(o, x) == Feat("agg", NilS, "", "", "", o, <<x>>)
Lt(a, b) == Op("lt", <<a, b>>)
AtomsAB == {Eq(Ax, L1), Eq(Bx, L1), Eq(Ax, Bx), Lt(Ax, Bx), Op("isnull", <<Bx>>), Eq(Ay, L0)}
AtomsSmall == {Eq(Ax, L1), Eq(Bx, L1), Lt(Ax, Bx)}
\* negation over COMPOUND operands (nesting depth 3): Not(p o q), p and q atoms or and / or of two different atoms -
\* conjunctions / disjunctions below the negation that span both tables, share a table, or stay inside one
Compound(atoms) == atoms \cup {Op(o, <<ab[1], ab[2]>>) : o \in {"and", "or"}, ab \in {x \in atoms \X atoms : x[1] # x[2]}}
Negated(atoms) == {Op("not", <<Op(o, <<p, q>>)>>) : o \in {"and", "or"}, p \in Compound(atoms), q \in Compound(atoms)}
Kinds == {"inner", "left", "right", "full"}
All(l) == QueryOf(l, <<>>, NilF, <<>>, NilF, <<>>, <<>>)
Where(l, w) == QueryOf(l, <<>>, w, <<>>, NilF, <<>>, <<>>)
SelWhere(l, sel, w) == QueryOf(l, sel, w, <<>>, NilF, <<>>, <<>>)

Stmts ==
    CASE Family = "where" ->       \* predicates in the where clause of a join of two tables (all kinds) and of one table
           {Where(JoinOf(TA, TB, k, Lt(Ax, Bx)), w) : k \in Kinds, w \in Preds(AtomsAB, Depth)}
           \cup {Where(JoinOf(TA, TB, "cross", NilF), w) : w \in Preds(AtomsSmall, Depth)}
           \cup {Where(TA, w) : w \in Preds({Eq(Ax, L1), Eq(Ay, L0), Lt(Ax, Ay)}, Depth)}
      [] Family = "on" ->          \* predicates as the join condition, projection of one column per side
           {SelWhere(JoinOf(TA, TB, k, c), <<Ay, Bx>>, NilF) : k \in Kinds, c \in Preds(AtomsAB, Depth)}
           \cup {All(JoinOf(TA, TB, k, c)) : k \in Kinds, c \in {Eq(Ax, Bx), Lt(Ax, Bx)}}
           \* a factor from the join condition AND one from the where clause meet in one segment
           \cup {SelWhere(JoinOf(TA, TB, k, Op("and", <<c, Lt(Ax, Bx)>>)), <<Ay, Bx>>, w) :
                    k \in Kinds, c \in {Eq(Ax, L1), Eq(Bx, L1)}, w \in {Eq(Ay, L0), Eq(Bx, L0), Lt(Ax, Ay)}}
      [] Family = "wheresmall" ->  \* deeper predicates over fewer atoms
           {Where(JoinOf(TA, TB, k, Lt(Ax, Bx)), w) : k \in {"inner", "left", "full"}, w \in Preds(AtomsSmall, Depth)}
      [] Family = "onsmall" ->
           {SelWhere(JoinOf(TA, TB, k, c), <<Ay, Bx>>, NilF) : k \in {"inner", "left", "full"}, c \in Preds(AtomsSmall, Depth)}
      [] Family = "negwhere" ->    \* negated compound predicates in the where clause (the origin leaves both tables free)
           {Where(JoinOf(TA, TB, "cross", NilF), w) : w \in Negated(AtomsSmall)}
      [] Family = "negwide" ->     \* ... over one more atom: two atoms of A, so that a shared table has a proper disjunction
           {Where(JoinOf(TA, TB, "cross", NilF), w) : w \in Negated(AtomsSmall \cup {Eq(Ay, L0)})}
      [] Family = "negon" ->       \* ... as the join condition
           {SelWhere(JoinOf(TA, TB, k, c), <<Ay, Bx>>, NilF) : k \in {"inner", "left"}, c \in Negated(AtomsSmall)}
      [] Family = "self" ->        \* self join through a reference, nested statement as an origin
           {SelWhere(JoinOf(TA, RA, k, c), <<Ax, Rx>>, w) :
                k \in {"inner", "left"}, c \in {Lt(Ax, Rx), Eq(Ay, Col(RA, "y"))},
                w \in {NilF} \cup Preds({Eq(Ax, L1), Eq(Rx, L1)}, Depth)}
           \cup {SelWhere(RA, <<Rx>>, w) : w \in {NilF, Eq(Rx, L1), Eq(Col(RA, "y"), L0)}}
           \cup UNION {LET sub == RefOf(SelWhere(TA, <<Ax, Ay>>, w1), "s") IN
                       {SelWhere(JoinOf(sub, TB, "inner", Lt(Col(sub, "x"), Bx)), <<Col(sub, "y"), Bx>>, w2) :
                           w2 \in {NilF} \cup Preds({Eq(Bx, L1), Eq(Col(sub, "x"), L1)}, 1)} :
                       w1 \in {NilF, Eq(Ax, L1)}}
           \* the same table in two query contexts of one statement: two nested statements over A joined together, and a
           \* nested statement over A joined with A itself - each occurrence has its own columns and filter
           \cup UNION {LET s1 == RefOf(SelWhere(TA, <<Ax, Ay>>, w1), "s")
                           s2 == RefOf(SelWhere(TA, <<Ax, Ay>>, w2), "t") IN
                       {SelWhere(JoinOf(s1, s2, "inner", Lt(Col(s1, "x"), Col(s2, "x"))), <<Col(s1, "y"), Col(s2, "y")>>, NilF),
                        SelWhere(JoinOf(s1, TA, "inner", Lt(Col(s1, "x"), Ax)), <<Col(s1, "y"), Ay>>, w2)} :
                       w1 \in {Eq(Ax, L1), Eq(Ay, L0)}, w2 \in {NilF, Eq(Ay, L0), Eq(Ax, L1)}}
      [] Family = "having" ->      \* aggregating queries with every combination of presence of where / groupby / having /
                                   \* orderby (without a groupby the whole input is one group); the having clause uses a
                                   \* column no other clause of the query context uses
           {q \in {QueryOf(l, (IF grp = <<>> THEN <<>> ELSE <<Ax>>) \o <<AggOf("count", Ax)>>, w, grp, h, ord, <<>>) :
                      l \in {TA, JoinOf(TA, TB, "inner", Lt(Ax, Bx)), JoinOf(TA, TB, "left", Lt(Ax, Bx))},
                      w \in {NilF, Eq(Ax, L1)}, grp \in {<<>>, <<Ax>>},
                      h \in {NilF, Op("gt", <<AggOf("sum", Ay), L0>>), Eq(AggOf("count", Bx), L1)},
                      ord \in {<<>>, <<[x |-> AggOf("count", Ax), dir |-> "descending"]>>}} : WellFormed(q)}
      [] Family = "three" ->       \* joins of three tables, conditions and where spanning them
           {Where(JoinOf(JoinOf(TA, TB, k1, c1), TC, k2, c2), w) :
                k1 \in {"inner", "left"}, k2 \in {"inner", "left", "right"},
                c1 \in {Eq(Ax, Bx), Lt(Ax, Bx)}, c2 \in {Eq(Bx, Cx), Op("and", <<Lt(Ax, Cx), Eq(Cx, L1)>>)},
                w \in {NilF} \cup Preds({Eq(Ax, L1), Eq(Cx, L1)}, Depth)}
      [] OTHER -> {}
Dbs == IF Family = "three" THEN DbSeq ELSE DbSeq2

VARIABLES stmt,     \* the statement under judgement
          dbi,      \* number of databases judged so far
          unsafe,   \* how many of them the as-is hints were unsafe on
          first     \* the first such database (0: none)
vars == <<stmt, dbi, unsafe, first>>
Stmt == stmt
Impl == ImplHints(Stmt)
Init == stmt \in Stmts /\ dbi = 0 /\ unsafe = 0 /\ first = 0
\* one step per database: the universally quantified db of Safe
NextDb == /\ dbi < Len(Dbs)
          /\ dbi' = dbi + 1
          /\ LET ok == Impl.crash # "" \/ SafeOn(Stmt, Impl.hints, Dbs[dbi + 1]) IN
                /\ unsafe' = unsafe + (IF ok THEN 0 ELSE 1)
                /\ first' = IF ~ok /\ first = 0 THEN dbi + 1 ELSE first
          /\ UNCHANGED stmt
Next == NextDb
Spec == Init /\ [][Next]_vars

\* every statement is WellFormed (the family is inside the grammar) - a broken generator is a machinery error
FamilyWellFormed == WellFormed(Stmt)
\* the clauses of the property as invariants of the AS-IS hints (expected to be violated where the code is
\* defective; the driver runs them as exports, one verdict per statement, not as stoppers)
ImplParses == Impl.crash = ""
ImplScoped == AllScoped(Impl.hints)
ImplComplete == Impl.crash = "" => ColumnsComplete(Stmt, Impl.hints)
ImplSafe == unsafe = 0
\* verdict of a statement once every database was judged
Export ==
    dbi = Len(Dbs) =>
        PrintT(ToJson([ast |-> Stmt,
                       verdict |-> <<Impl.crash, B(ImplScoped), B(ImplComplete), unsafe, first>>,
                       hints |-> [h \in DOMAIN Impl.hints |->
                                     [path |-> Impl.hints[h].path, table |-> Impl.hints[h].table.name,
                                      cols |-> Impl.hints[h].cols, factors |-> Impl.hints[h].factors]]]))
Post == PrintT(<<"FAMILY", Cardinality(Stmts), Len(Dbs), TLCGet("distinct")>>)
=============================================================================
