------------------------------ MODULE Windows ------------------------------
(***************************************************************************)
(* C10.  Ordinal windows deliver each record as the semantic promises.     *)
(*                                                                         *)
(* Whether a record is delivered by a window depends on its ordinal only,  *)
(* so the model counts per ordinal position r \in 0..D how many of the     *)
(* windows launched so far delivered the records sitting at r (cnt[r]);    *)
(* any data (any multiset of records over the positions) inherits these    *)
(* counts record by record, which discharges the quantifier "over any      *)
(* data" at model level (real multisets are judged by TraceWindows.tla).   *)
(*                                                                         *)
(* mode "windows": an increasing bound sequence (<= MaxLen bounds, either  *)
(*    end possibly open) is launched window by window, either with the     *)
(*    bounds passed explicitly (via = "load") or as incremental trainings  *)
(*    where the lower bound is omitted and the last training tag holds the *)
(*    previous upper bound (via = "train").                                *)
(* mode "nonord": one launch with bounds (lo, hi) on a source WITHOUT an   *)
(*    ordinal - must be refused whenever a bound is given.                 *)
(* mode "train1": one training with any (lo, hi, last) - an explicit lower *)
(*    bound wins over the last training ordinal.                           *)
(***************************************************************************)
EXTENDS WindowsBase, Sequences, FiniteSets, TLC, Json
CONSTANTS D,       \* ordinal positions 0..D
          MaxLen   \* at most MaxLen bounds in a sequence
Dom == 0..D
OptDom == Dom \cup {NONE}
VARIABLES mode, sem, via, edges, last, i, cnt, out, hist
vars == <<mode, sem, via, edges, last, i, cnt, out, hist>>

Zero == [r \in Dom |-> 0]
Ind(lo, hi) == [r \in Dom |-> IF InWindow(sem, lo, hi, r) THEN 1 ELSE 0]
Rows(lo, hi) == {r \in Dom : InWindow(sem, lo, hi, r)}

RECURSIVE Sorted(_)
Sorted(S) == IF S = {} THEN <<>> ELSE LET m == CHOOSE x \in S : \A y \in S : x <= y IN <<m>> \o Sorted(S \ {m})
BoundSets == {S \in SUBSET Dom : Cardinality(S) >= 1 /\ Cardinality(S) <= MaxLen}
Edges(S, ol, oh) == (IF ol THEN <<NONE>> ELSE <<>>) \o Sorted(S) \o (IF oh THEN <<NONE>> ELSE <<>>)

InitWindows == /\ mode = "windows" /\ sem \in Sems /\ via \in {"load", "train"}
               /\ \E S \in BoundSets, ol \in BOOLEAN, oh \in BOOLEAN :
                     edges = Edges(S, ol, oh) /\ Len(edges) >= 2
               /\ last = NONE
InitNonOrd == /\ mode = "nonord" /\ sem = "exactly" /\ via = "load"
              /\ \E lo \in OptDom, hi \in OptDom : edges = <<lo, hi>>
              /\ last = NONE
InitTrain1 == /\ mode = "train1" /\ sem \in Sems /\ via = "train"
              /\ \E lo \in OptDom, hi \in OptDom : edges = <<lo, hi>>
              /\ last \in OptDom
Init == /\ (InitWindows \/ InitNonOrd \/ InitTrain1)
        /\ i = 1 /\ cnt = Zero /\ out = "ok" /\ hist = <<>>

Ev(lo, hi, la, res, rows) == [via |-> via, lo |-> lo, hi |-> hi, last |-> la, res |-> res, rows |-> rows]

\* one window of the sequence; launched incrementally the lower bound is omitted and taken from the tag
Launch == /\ mode = "windows" /\ i < Len(edges)
          /\ LET lo == IF via = "train" THEN NONE ELSE edges[i]
                 la == IF via = "train" THEN edges[i] ELSE NONE
                 eff == IF via = "train" THEN EffLower(lo, la) ELSE lo
                 hi == edges[i + 1] IN
               /\ cnt' = [r \in Dom |-> cnt[r] + Ind(eff, hi)[r]]
               /\ hist' = Append(hist, Ev(lo, hi, la, "ok", Rows(eff, hi)))
          /\ i' = i + 1 /\ UNCHANGED <<mode, sem, via, edges, last, out>>

LaunchNonOrdinal ==
          /\ mode = "nonord" /\ i = 1
          /\ LET refused == Refuse(FALSE, edges[1], edges[2]) IN
               /\ out' = IF refused THEN "refused" ELSE "ok"
               /\ cnt' = IF refused THEN Zero ELSE [r \in Dom |-> 1]
               /\ hist' = Append(hist, Ev(edges[1], edges[2], NONE, out', IF refused THEN {} ELSE Dom))
          /\ i' = 2 /\ UNCHANGED <<mode, sem, via, edges, last>>

Train == /\ mode = "train1" /\ i = 1
         /\ LET eff == EffLower(edges[1], last) IN
              /\ cnt' = Ind(eff, edges[2])
              /\ hist' = Append(hist, Ev(edges[1], edges[2], last, "ok", Rows(eff, edges[2])))
         /\ i' = 2 /\ UNCHANGED <<mode, sem, via, edges, last, out>>

Next == Launch \/ LaunchNonOrdinal \/ Train
Spec == Init /\ [][Next]_vars

(* ---------------- invariants: one per clause of the property ---------------- *)
Launched == i > 1
First == edges[1]
Front == edges[i]
Bounds == {edges[k] : k \in 1..Len(edges)} \ {NONE}
W == mode = "windows"
\* "only records whose ordinal equals a bound may be duplicated or dropped"
OnlyBoundsDeviate == W => \A r \in Dom : OnlyBoundsDeviateAt(Launched, First, Front, Bounds, r, cnt[r])
NothingOutside == W => \A r \in Dom : NothingOutsideAt(Launched, First, Front, r, cnt[r])
\* "each record exactly once under exactly-once" (the upper end is left for the next batch)
ExactlyOnce == (W /\ sem = "exactly") => \A r \in Dom : ExactlyOnceAt(Launched, First, Front, r, cnt[r])
\* "never twice under at-most-once"
AtMostOnce == (W /\ sem = "atmost") => \A r \in Dom : AtMostOnceAt(cnt[r])
\* "never zero times under at-least-once"
AtLeastOnce == (W /\ sem = "atleast") => \A r \in Dom : AtLeastOnceAt(Launched, First, Front, r, cnt[r])
\* duplicates are bounded: a record sits on at most one inner bound, so never more than twice
NeverThrice == W => \A r \in Dom : cnt[r] <= 2
\* a missing bound leaves that side open
OpenEnds == (W /\ i = Len(edges)) =>
               /\ (First = NONE => \A r \in Dom : (r < Front \/ Front = NONE) => cnt[r] >= 1)
               /\ (Front = NONE => \A r \in Dom : (r > First \/ First = NONE) => cnt[r] >= 1)
\* "bounds given to a source without an ordinal are refused" (also the falsy ones: position 0 is a bound)
RefuseBounds == (mode = "nonord" /\ i = 2) =>
                   /\ (out = "refused") = (edges[1] # NONE \/ edges[2] # NONE)
                   /\ (out = "refused" => cnt = Zero)
                   /\ (out = "ok" => \A r \in Dom : cnt[r] = 1)
\* default lower bound from the last training tag; an explicit one (also position 0) wins
ExplicitLowerWins == (mode = "train1" /\ i = 2 /\ edges[1] # NONE) => cnt = Ind(edges[1], edges[2])
DefaultLowerFromTag == (mode = "train1" /\ i = 2 /\ edges[1] = NONE) => cnt = Ind(last, edges[2])
\* incremental trainings tile exactly like explicitly bounded launches
TypeOK == /\ mode \in {"windows", "nonord", "train1"} /\ sem \in Sems /\ i \in 1..Len(edges)
          /\ cnt \in [Dom -> 0..Len(edges)] /\ Len(hist) = i - 1

Done == i = Len(edges) \/ (mode # "windows" /\ i = 2)
Export == Done => PrintT(ToJson([mode |-> mode, sem |-> sem, via |-> via, edges |-> edges, last |-> last, hist |-> hist]))
=============================================================================
