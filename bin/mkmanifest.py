#!/usr/bin/env python3
"""Regenerates MANIFEST.json from the table below (single source of truth for the interface)."""
import json
import os

HERE = os.path.dirname(os.path.dirname(os.path.abspath(__file__)))
BASELINE = json.load(open('/root/.vp/BASELINE.json'))['cmd'] if os.path.exists('/root/.vp/BASELINE.json') else ''

CHECKS = {
    'C17': dict(
        technique='TLC exhaustive over the A/B deficit graph (all n) + TLC trace validation of real ABTest pick sequences; '
                  'TLC-generated registry histories replayed on the real Latest/Explicit',
        text='Strategy.tla decides the share bound for every weight vector in the constants and every request count '
             '(finite deficit abstraction); real ABTest pick sequences are validated prefix by prefix by TraceStrategy.tla '
             'and compared with the rule of the model (zero drift = the all-n verdict transfers to the code); every '
             'behaviour of Latest.tla up to Depth is replayed against the real Latest/Explicit selectors on a posix registry.',
        note='Trusted: TLC, the projection of asset.Instance equality onto (release, generation), virtualised time.sleep '
             'for the refresher; weights beyond the constants are sampled, not exhausted.',
        design='6/C17'),
    'C11': dict(
        technique='TLC exhaustive exploration of FlowGraph.tla (all call orders over fixed casts) with every generated call '
                  'of every reachable graph executed on real flow objects; random call sequences validated by TraceFlowGraph.tla',
        text='FlowGraph.tla fixes, for every declared graph and every public wiring call, the allowed outcome class and the '
             'projected graph (placeholders resolved to the direct wiring). Every reachable graph within the constants is '
             'rebuilt on real Worker/Future objects through a witness history and every call is tried from it; outcome class and '
             'node.output / Worker.input / trained / derived are compared with TLC\'s values. Longer random sequences over the '
             'same casts are recorded and validated step by step by TLC.',
        note='Trusted: TLC, the projection through public attributes. Segment.copy / Trunk.extend are exercised through the '
             'operator library in C03/C12. Placeholder-only cycles are not generated (property silent).',
        design='6/C11'),
    'C01': dict(
        technique='TLC exhaustive model checking of the transcribed compiler (every segment <= 4 nodes x persistent list x '
                  'visit order) against the graph denotation; TLC-generated segments compiled by the real flow.compile and '
                  'executed by an independent interpreter; random larger segments validated by TLC as reference semantics',
        text='Compiler.tla generates every valid segment within the constants, defines Den (direct evaluation over '
             'uninterpreted terms, loaded/committed states at list positions) and proves Sound for the transcribed Table.add '
             'under every visit order. Each generated (segment, persistent list) is built on the real API, compiled, interpreted, '
             'and the bag of functor values, the commits and the loads are compared with TLC\'s. Random segments up to 9-11 '
             'nodes (3 ports) go the other way: TraceCompiler.tla recomputes Den for each observation.',
        note='Trusted: TLC, harness.refinterp, symbolic actors, the recording stand-in for asset.Generation. Validity '
             'preconditions of a segment are stated in the evidence assumptions.',
        design='6/C01'),
    'C02': dict(
        technique='TLC exhaustive over all single-source/single-sink DAGs <= 5-6 nodes (pyfunc order/deque/replica model, dask '
                  'ready-set scheduler model) + every generated table and compiled tables from TLC-generated segments executed '
                  'by dask {synchronous, threads, processes} and pyfunc, sink records and persisted states compared with TLC',
        text='Runners.tla proves, for every DAG in the constants, that the single-function transcoding returns the reference value '
             'with empty replica queues and that the keyed ready-set scheduler never blocks or runs a task before its arguments. '
             'Each generated DAG and each compiled table (getters, loaders, dumpers, committer; segments from Compiler.tla) is run '
             'through the public run() entry point of every accepting backend; the sink must record TLC\'s value exactly once and '
             'the persisted states must be TLC\'s ExpectedCommit.',
        note='Trusted: TLC, symbolic pure actors, file-recording stand-in for asset.Generation. processes scheduler sampled in the '
             'quick tier; distributed/spark not reachable offline.',
        design='6/C02'),
    'C19': dict(
        technique='TLC exhaustive enumeration of Accept headers (Negotiation.tla: preference order, Match, encoder/decoder sets) '
                  'replayed on the real codec in several spellings + TLC trace validation of random headers from a wider grammar; '
                  'kinds as glob text, content type x Accept through layout.Request and the REST route (NegotiationRequest.tla)',
        text='Negotiation.tla defines the preference order (descending q, ties in header order), the pattern match and the set of '
             'admissible encoders/decoders; every header TLC enumerates is rendered in several spellings and run through '
             'Encoding.parse, get_encoder, get_decoder, Generic.receive/respond; random headers from a wider grammar are judged '
             'clause by clause by TraceNegotiation.tla.',
        note='Trusted: TLC, the rendering of abstract headers; q=0, malformed headers and quoted commas are outside the property '
             '(excluded in the generators); codec round trip only on CSV (pandas 3.0 breaks the JSON decoders here) and auxiliary.',
        design='6/C19'),
    'C15': dict(
        technique='TLC exhaustive over query/entry schema arrangements (Entry.tla requirement, MatchEntryImpl.tla as-is scan and cast) '
                  'and tabular view histories (Tabular.tla), every exported vector replayed on the real Reader / drivers / Dense / '
                  'Frame / Slicer; served payloads that are row selections / labelled frames (EntrySelect.tla), sessions on one reader (EntrySession.tla); random requests '
                  'validated by TraceEntry.tla',
        text='Entry.tla defines Aligned (columns by name in query order, values cast to the declared kind, refusal when a column is '
             'missing); MatchEntryImpl.tla transcribes the zip_longest scan and _cast and is checked to refine it; every arrangement '
             'within the constants is served by the real Reader.__call__, RowDriver and TableDriver and compared; Tabular.tla states '
             'are replayed on Dense/Frame take_rows/take_columns/to_rows/to_columns and the Slicer.',
        note='Trusted: TLC, the value projection (denotations, not container types). NaN/None, Boolean/Decimal/compound kinds and '
             'codec-side entry inference are not covered.',
        design='6/C15'),
    'C03': dict(
        technique='TLC enumeration of expression universes with a denotational semantics (Composition.tla); every expression '
                  'built from the real operator library, compiled in train and apply mode and compared term by term with TLC',
        text='Composition.tla gives every library operator (mapper/apply/train/label wrappers, map-reduce, stacking, dump, a '
             'scope-doubling operator) an equation over trunk functions [apply, train, label]; composition is substitution. For each '
             'expression of the universe TLC exports the value the closed pipeline Source >> e >> Probe must yield in train mode and in '
             'apply mode with the trained states; the real Composition is compiled and interpreted and must yield exactly those terms.',
        note='Trusted: TLC, symbolic actors, harness.refinterp, the positional numbering of actor labels shared by spec and driver. '
             'Apply mode re-uses the composition of the train run (fresh expansions/processes: C04).',
        design='6/C03 + Appendix A'),
    'C10': dict(
        technique='TLC exhaustive over bound sequences x semantics (Windows.tla tiling invariants) replayed through '
                  'Source.query -> Feed.load -> drivers -> parser -> SQLite for five ordinal kinds; recorded launches validated by '
                  'TraceWindows.tla',
        text='Windows.tla decides the per-record delivery clauses (exactly once / never twice / never zero / only bound records '
             'deviate / refusal on non-ordinal sources / default lower bound from the tag) for every bound sequence in the constants; '
             'each exported launch sequence is run on the real extract path over SQLite with order-preserving encodings of the five '
             'ordinal kinds and all alias spellings; delivered id bags are judged by TLC.',
        note='Trusted: TLC, SQLite with ISO-text dates and binary collation as the storage fixture.',
        design='6/C10'),
    'C13': dict(
        technique='TLC exhaustive over actor call histories (Actor.tla contract, ActorImpl.tla state handling of every flavour) '
                  'with one behaviour per transition replayed against 12 actor flavours (direct, functor presets, saturated) + '
                  'random call traces validated by TraceActor.tla',
        text='Actor.tla states the contract (state transfer equivalence, builder parameters win, empty state is a no-op, pickling is '
             'the identity, stateful iff train) as invariants and action properties; ActorImpl.tla models the default, decorated and '
             'wrapped state handling and refines it; the same TLC behaviours are replayed on every real flavour.',
        note='Trusted: TLC, symbolic apply terms, cloudpickle; positional builder arguments and partial get_params are not covered.',
        design='6/C13'),
    'C20': dict(
        technique='TLC exhaustive over configuration stacks (Config.tla: merge vs denotation) and provider hierarchies x every '
                  'registration/import order (Bank.tla requirement, BankImpl.tla as-is) replayed on the real Config / Service classes; '
                  'random stacks, sections and hierarchies validated by TraceConfig.tla / TraceBank.tla',
        text='Config.tla checks the recursive merge against a path-wise denotation (later wins at any depth, unrelated keys survive, '
             'lists new-first without duplicates); Bank.tla fixes the lookup table every registration/import order must produce; all '
             'exported stacks and behaviours are replayed on the real classes (fresh abstract root and module names per scenario).',
        note='Trusted: TLC, dictionary encodings of scalars/strings, BANK isolation by fresh qualnames; Sink.Mode.resolve not reached.',
        design='6/C20'),
    'C12': dict(
        technique='TLC enumeration of evaluated / stacked pipelines with leak-freedom lemmas on the denotation '
                  '(CompositionEvalMC.tla over Composition.tla); every expression composed with the real TrainTestScore / CrossVal / '
                  'HoldOut / FullStack over a symbolic splitter and compared term by term with TLC; Splitter.tla / Reducer.tla replayed '
                  'on the real default folding actor and default reducers',
        text='The fold parts of a symbolic splitter (port 2i train, 2i+1 test) make provenance syntactic: TLC checks EvalLeakFree / '
             'StackLeakFree on the denotation and exports the exact (true, predicted) terms reaching the metric, the stacked train set '
             'and the reduced apply output; the real compositions are compiled, interpreted and must produce these terms, with one '
             'trained splitter instance (training nonce) behind features and labels.',
        note='Trusted: TLC, symbolic actors and callables, harness.refinterp. Fold counts 2..3 (quick) / 2..5 (thorough), 1..3 bases.',
        design='6/C12 + Appendix A'),
    'C18': dict(
        technique='TLC exhaustive over a PEP 440 version lattice and generation keys (Keys.tla), the tag value domain with '
                  'replace/trigger/dump/load (TagCodec.tla) and package/manifest life cycles (Packages.tla); every exported state / '
                  'transition replayed on real posix registry trees, Tag, Manifest, Package; random levels and tag sessions '
                  'validated by TraceKeys.tla / TraceTagCodec.tla',
        text='Keys.tla transcribes the PEP 440 ordering (two formulations cross-checked by ASSUMEs) and requires listings to be '
             'strictly sorted, complete and invalid-free with latest = max; TagCodec.tla requires Load(Dump(t)) = t over the tag domain; '
             'Packages.tla requires manifests and installed components to read back. All exported vectors are replayed on the real code.',
        note='Trusted: TLC; byte-level fidelity of arbitrary strings is outside the specification (finite tables only); fresh process '
             'is simulated by clearing the TAGS/STATES/ARTIFACTS caches.',
        design='6/C18'),
    'C04': dict(
        technique='TLC exhaustive over lifecycle histories (Lifecycle.tla: generations, incremental training of persistent actors, '
                  'Gen(term, g)) for ten pipelines; sampled histories replayed on a real posix registry + project package through '
                  'the real Runner.train/apply/eval_perftrack and pyfunc serving, fresh expansion / fresh interpreter per action',
        text='Lifecycle.tla defines which state every actor must receive when generation g is loaded in any mode (its own state of '
             'that generation, built on its own previous state; non-persistent actors from scratch) and checks the Distinct/OwnChain '
             'lemmas; each exported history is replayed with real registry, package, project components, compiler and runners, and '
             'the terms observed by the symbolic actors must equal TLC\'s.',
        note='Trusted: TLC, symbolic actors, the symbolic source in place of the feed layer. A perftrack composition that is refused '
             'with TopologyError (fan-out/fan-in pipelines) is not judged. The as-is traversal-order model (OperatorsImpl) is not built.',
        design='6/C04'),
    'C09': dict(
        technique='TLC exhaustive over statements x advertised source sets x feed pools (Importer.tla requirement, ImporterImpl.tla '
                  'as-is Matcher/bypass) with every pool replayed on real io.Importer + alchemy parsers; random pools validated by '
                  'TraceImporter.tla',
        text='Importer.tla defines Covers / Resolvable and the selection clauses (highest priority covering feed, MissingError only '
             'if none, the selected feed parses, a passed-over feed could not); all (statement, advertised set) pairs and pools within '
             'the constants are replayed on real feeds; the as-is model predicts every real outcome (drift 0).',
        note='Trusted: TLC, harness.dslgen; statements with two-origin and/or predicates are excluded (they crash the parser for '
             'reasons owned by C06/C14).',
        design='6/C09'),
    'C05': dict(
        technique='TLC exhaustive over the posix registry protocol with a crash between any two file-system operations and inside '
                  'metadata writes (RegistryImpl.tla); TLC-generated histories replayed on the real registry with a crash injected at '
                  'every file-system event / write of one operation, fresh-reader views validated by TraceRegistry.tla',
        text='RegistryImpl.tla models publish and commit one file-system call per step and proves Consistent, ViewIsHistory, '
             'AppendOnly, OneAtATime for the protocol of the code (and refutes in-place writes). Histories from RegistryOps.tla are '
             'replayed on posix.Registry / asset.Directory; an audit hook turns each mutating FS call into a crash point and an io.open '
             'wrapper crashes inside each write; the view of a fresh reader after every step must be the committed history '
             '(old or complete new item), as decided by TraceRegistry.tla.',
        note='Trusted: TLC, the audit-hook / io.open crash model (a BaseException before the k-th mutating call), single writer. '
             'Byte identity of earlier items is checked through content identifiers of tags and states.',
        design='6/C05'),
    'C16': dict(
        technique='TLC exhaustive over the serving pipeline model (Serving.tla: all interleavings of 5-7 requests over executors, '
                  'FIFO queues and forked workers, with failing requests; safety + liveness) + the real Engine under seeded concurrent '
                  'batches judged per response, hook-emitted task life-cycle logs validated by TraceServing.tla, and the REST gateway in '
                  'front of it (Gateway.tla; event logs of the real Starlette route validated by TraceGateway.tla)',
        text='Serving.tla checks NoCross, AtMostOnce, FailAlone, UniqueIds and <>AllAnswered over every interleaving within the '
             'constants. The real runtime Engine (registry with three generations, dispatch, executors, spawned pools, forked workers, '
             'pyfunc) serves batches of 1..64 concurrent requests over pool sizes 1..4 with unknown-application / unsupported-encoding / '
             'missing-feature requests injected; every response must carry its own id and the stamp of the selected generation, and the '
             'per-process submit/take/exec/done/resolve logs must be a behaviour of the task protocol (linear-time validation in TLC).',
        note='Trusted: TLC, the guarded hooks (FORML_VERIF=1), monotone enabling argument for the fixed scheduling of the trace spec. '
             'Real parallel timing is sampled, not exhausted. Non-platform exceptions (which stop a pool by design) are not injected.',
        design='6/C16'),
    'C07': dict(
        technique='TLC exhaustive over builder-call sequences (Statements.tla: each call ok iff WellFormed(next), SchemaOf) with every '
                  'transition replayed on the real DSL; generator statements and single-rule violations validated by TraceStatements.tla',
        text='DslAst.tla defines WellFormed as the set of broken grammar rules being empty and SchemaOf; Statements.tla explores all '
             'builder-call sequences within the constants; every transition (verdict, successor, schema) is executed on the real DSL; '
             'a stream of generator statements and of each single-rule violation at each position is judged by TLC.',
        note='Trusted: TLC, harness.dslgen build/project. Window functions, Avg/Division result kinds are not generated.',
        design='6/C07'),
    'C08': dict(
        technique='TLC over a cache/dictionary state machine parameterised by the key relation (Identity.tla: NoConfusion holds only '
                  'for structural equality) with histories replayed on real dicts and the real parser cache; measured pairs '
                  '(==, hash, dict/set, pickle, attribute access, parser cache) validated by TraceIdentity.tla against AST equality',
        text='Identity.tla shows that lookups never confuse keys iff the key relation is structural equality; the implementation\'s key '
             'relation is measured on rebuilt-identical pairs and one-leaf mutations (incl. hash-colliding literals, cross-kind '
             'literals, equal-field tables) over ten clauses and judged by TLC; requirement-level histories run on real dicts and on '
             'Reader._parse_statement.',
        note='Trusted: TLC, harness.dslgen. Hash-colliding strings are out of reach (SipHash).',
        design='6/C08'),
    'C06': dict(
        technique='TLC as executable relational semantics (RelAlg.tla: 3-valued logic, joins, grouping, ordering with tie groups, '
                  'sets, references) validating result sets of the real DSL -> alchemy parser -> SQLite and DuckDB for an enumerated '
                  'statement stream (TraceReads.tla); TLC exhaustive over read/mutate/restart histories (Reads.tla requirement, '
                  'FeedCacheImpl.tla as-is caches) replayed on real alchemy / lazy / monolite feeds with process restarts',
        text='Every generated statement is built with the real DSL, parsed by the real alchemy parser and executed on two engines over '
             'several table contents; TLC decides whether the returned rows are what the statement denotes (Accepts handles ties and '
             'limits). Reader level: every history of reads, storage mutations, reads through another feed with equally named tables and '
             'process restarts (same FORML_HOME) within the bound is replayed on real feeds and judged against storage-now.',
        note='Trusted: TLC, harness.dslgen/relgen encodings. Engine-specific SQL corners the DSL leaves undefined are excluded in the '
             'generator (E1-E14 in harness/relgen.py). TLC -coverage is unusable on RelAlg.tla (start-up cost); vacuity is guarded by '
             'explicit counts.',
        design='6/C06'),
    'C14': dict(
        technique='TLC exhaustive decision of hint safety over ALL databases within a bound (Hints.tla / HintsMC.tla over RelAlg.tla, '
                  'FactorsImpl.tla as-is factorisation) + hints recorded from the real parser (generate_table override) validated by '
                  'TraceHints.tla and enforced on SQLite against the hint-ignoring run; twin-statement histories through one lazy '
                  'reader (LazyReads.tla); clause mixes (ClauseMix.tla)',
        text='Hints.tla defines ColumnsComplete, Scoped and Safe (Eval(stmt, db) = Eval(stmt, Restrict(db, H)) for every db of the '
             'universe); HintsMC.tla enumerates statement families x all small databases for the transcribed factorisation; the hints '
             'the real parser offers are recorded through the public generate_table extension point, judged by TLC and honoured on '
             'SQLite (restricted table copies) to compare with the plain result.',
        note='Trusted: TLC, RelAlg.tla, harness.relgen. Safety is decided exhaustively inside the small world A(x,y), B(x), C(x); wide '
             'catalog statements are judged on sampled contents.',
        design='6/C14'),
}

NOT_YET = {}


def main():
    props = [json.loads(l) for l in open(os.path.join(HERE, 'properties.jsonl'))]
    checks = []
    na = []
    for p in props:
        pid = p['id']
        if pid in CHECKS:
            c = CHECKS[pid]
            checks.append({
                'property_id': pid,
                'quick_cmd': f'bin/check {pid} --tier quick',
                'thorough_cmd': f'bin/check {pid} --tier thorough',
                'evidence_file': f'evidence/{pid}.json',
                'replay_cmd_template': f'bin/check {pid} --replay {{path}}',
                'engine': 'tlc+conformance',
                'level_claimed': {'category': 'model_checking', 'text': c['text'], 'design_ref': f'DESIGN.md §{c["design"]}'},
                'level_note': c['note'],
                'technique': c['technique'],
            })
        else:
            na.append({'property_id': pid, 'reason': NOT_YET.get(pid, 'check not built yet in this round (planned in DESIGN.md §13); no claim made')})
    manifest = {
        'version': 1,
        'setup_cmd': 'bin/setup',
        'hooks': {
            'guard': 'FORML_VERIF',
            'enable': 'bin/check exports FORML_VERIF=1; /repo is pure Python and is imported from its working tree (no build step)',
            'baseline_off_cmd': 'cd /repo && env -u FORML_VERIF /venv/bin/python -m pytest -ra -q -p no:cacheprovider --timeout=900 --continue-on-collection-errors',
            'source_commits': HOOK_COMMITS,
            'add_only': True,
        },
        'engines': [{'name': 'tlc+conformance', 'path': 'bin/check',
                     'serves_properties': [c['property_id'] for c in checks],
                     'kind_free_text': 'explicit TLA+ specifications (specs/*.tla) checked by TLC 1.8; bound to the code by '
                                       'replaying TLC-generated behaviours on the real objects and by validating traces / '
                                       'observations recorded from the real code with TLC trace specifications'}],
        'checks': checks,
        'not_applicable': na,
        'notes': 'See DESIGN.md. Exit 2 = machinery failure (never a verdict). known_findings.json lists genuine defects '
                 '(open = reported as KNOWN-FINDING, fixed = repaired by a fix: commit in /repo).',
    }
    with open(os.path.join(HERE, 'MANIFEST.json'), 'w') as fh:
        json.dump(manifest, fh, indent=1)


HOOK_COMMITS = ['728249e', 'ba8cfeb', '6f3e21f']

if __name__ == '__main__':
    main()
